#!/usr/bin/env python3
"""Render /verif/MANIFEST.json from harness/registry.py."""
import json
import os
import sys

HERE = os.path.dirname(os.path.dirname(os.path.abspath(__file__)))
sys.path.insert(0, HERE)
from harness import registry  # noqa: E402

for p in list(registry.NOT_APPLICABLE):
    if p in registry.CLAIMED:
        del registry.NOT_APPLICABLE[p]

checks = []
for pid in sorted(registry.CLAIMED):
    c = registry.CLAIMED[pid]
    checks.append(dict(
        property_id=pid,
        quick_cmd=f"./vf check {pid} --tier quick",
        thorough_cmd=f"./vf check {pid} --tier thorough",
        evidence_file=f"evidence/{pid}.json",
        replay_cmd_template="./vf replay {path}",
        engine="symx",
        level_claimed=dict(category=c["category"], text=c["text"], design_ref=c["design_ref"]),
        level_note=c["note"],
        technique=c["technique"],
    ))
manifest = dict(
    version=1,
    setup_cmd="./vf setup",
    hooks=dict(
        guard="DISSECT_HYPERVISOR_VERIF",
        enable="none needed: the loader instruments in-memory copies of /repo's current source; no hook commits exist",
        baseline_off_cmd="cd /repo && /venv/bin/python -m pytest -ra -q -p no:cacheprovider --timeout=900 "
                         "--continue-on-collection-errors",
        source_commits=[],
        add_only=True,
    ),
    engines=[dict(name="symx", path="symx/", serves_properties=sorted(registry.CLAIMED),
                  kind_free_text="symbolic execution of the real Python code on proxy values; z3 Int/UF steers paths, "
                                 "z3 QF_UFBV decides obligations; replay of every counterexample on the unpatched code")],
    checks=checks,
    notes="Exit codes of ./vf check: 0 held (KNOWN-FINDING lines allowed), 1 VIOLATION, 2 inconclusive, 3 harness error. "
          "Genuine defects repaired in /repo are 'fix:' commits listed in known_findings.json.",
    not_applicable=[dict(property_id=p, reason=r) for p, r in sorted(registry.NOT_APPLICABLE.items())],
)
with open(os.path.join(HERE, "MANIFEST.json"), "w") as fh:
    json.dump(manifest, fh, indent=1)
print("MANIFEST.json:", len(checks), "checks,", len(manifest["not_applicable"]), "not applicable")

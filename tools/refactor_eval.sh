#!/bin/bash
# usage: refactor_eval.sh <name> <property...> : apply a behaviour-preserving refactoring to /repo, run the quick checks, undo
name=$1; shift
cd /repo && git apply /verif/refactors/refactor_$name.diff || { echo "$name: does not apply"; exit 9; }
cd /verif
for p in "$@"; do
  timeout 1500 ./vf check $p > /tmp/ref_${name}_$p.log 2>&1; rc=$?
  echo "refactor $name: check $p exit=$rc :: $(grep -a '^vf:' /tmp/ref_${name}_$p.log | tail -1 | cut -c1-140)"
  grep -a "VIOLATION\|HARNESS-ERROR\|INCONCLUSIVE" /tmp/ref_${name}_$p.log | cut -c1-260 | head -3
done
git -C /repo checkout -- .

#!/bin/bash
# usage: seed_eval.sh <seed-id> [tier]   -- confirm a seeded change and run the property's check against it
id=$1; tier=${2:-quick}
d=/verif/seeded/$id; prop=$(cat $d/.prop 2>/dev/null || python3 -c "import json;print(json.load(open('$d/meta.json'))['property'])")
wt=/tmp/seedwt_$$
git -C /repo worktree add -q --detach $wt HEAD || exit 9
cd $wt
PYTHONPATH=$wt timeout 120 /venv/bin/python $d/demo.py >/dev/null 2>&1; clean=$?
git apply $d/patch.diff || { echo "$id: patch does not apply"; git -C /repo worktree remove --force $wt; exit 9; }
PYTHONPATH=$wt /venv/bin/python -m pytest -q -p no:cacheprovider tests >/tmp/seed_tests_$$.log 2>&1; tests=$?
PYTHONPATH=$wt timeout 120 /venv/bin/python $d/demo.py >/dev/null 2>&1; mut=$?
cd /; git -C /repo worktree remove --force $wt
echo "$id: demo clean exit=$clean, tests with change exit=$tests ($(tail -1 /tmp/seed_tests_$$.log)), demo with change exit=$mut"
rm -f /tmp/seed_tests_$$.log
# now the check
cd /repo && git apply $d/patch.diff || exit 9
cd /verif && timeout 1200 ./vf check $prop --tier $tier > /tmp/seed_check_$id.log 2>&1; rc=$?
git -C /repo checkout -- .
nv=$(grep -a -c "^VIOLATION" /tmp/seed_check_$id.log)
echo "$id: check $prop tier=$tier exit=$rc violations=$nv :: $(grep -a '^vf:' /tmp/seed_check_$id.log | tail -1)"
grep -a -m2 "^  " /tmp/seed_check_$id.log | cut -c1-220

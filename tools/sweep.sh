#!/bin/bash
# usage: tools/sweep.sh <seed> [tier]  -- run every claimed check once, print one line each
seed=${1:-0}; tier=${2:-quick}
cd "$(dirname "$0")/.."
for p in $(python3 -c "import json; print(' '.join(c['property_id'] for c in json.load(open('MANIFEST.json'))['checks']))"); do
  s=$(date +%s); VERIF_SEED=$seed ./vf check $p --tier $tier > /tmp/sweep_${seed}_$p.log 2>&1; rc=$?; e=$(date +%s)
  echo "$p seed=$seed tier=$tier exit=$rc $((e-s))s :: $(grep -a '^vf:' /tmp/sweep_${seed}_$p.log | tail -1 | cut -c1-140)"
  [ $rc -ne 0 ] && grep -a "VIOLATION\|HARNESS-ERROR\|INCONCLUSIVE" /tmp/sweep_${seed}_$p.log | cut -c1-300 | head -4
done

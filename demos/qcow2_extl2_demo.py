import struct, io, sys, signal
from dissect.hypervisor.disk.qcow2 import QCow2
cb=16; cs=1<<cb; sub=cs//32
img=bytearray(5*cs)
hdr=struct.pack(">IIQIIQIIQQIIQQQQII", 0x514649fb, 3, 0, 0, cb, 4*cs, 0, 1, cs, 0, 0, 0, 0, 1<<4, 0, 0, 4, 104)
img[:len(hdr)]=hdr
struct.pack_into(">Q", img, cs, 2*cs | (1<<63))          # L1[0] -> L2 at 2*cs
# L2 entry 0: host 3*cs, copied; bitmap: alloc 0..3, zero 4..7
struct.pack_into(">QQ", img, 2*cs, 3*cs | (1<<63), 0x0000000F | (0xF0<<32))
# L2 entry 1: host 4*cs fully allocated
struct.pack_into(">QQ", img, 2*cs+16, 4*cs | (1<<63), 0xFFFFFFFF)
for i in range(cs): img[3*cs+i]=(i//sub)+1
for i in range(cs): img[4*cs+i]=0xAA
exp = bytes(img[3*cs:3*cs+4*sub]) + bytes(cs-4*sub) + bytes([0xAA])*cs
signal.alarm(10)
q=QCow2(io.BytesIO(bytes(img)))
try:
    got=q._read(0, 2*cs)
    print("equal" if got==exp else f"DIFFERENT len={len(got)} first diff at {next((i for i,(a,b) in enumerate(zip(got,exp)) if a!=b), None)}")
    sys.exit(0 if got==exp else 1)
except Exception as e:
    print("raised", type(e).__name__, e); sys.exit(1)

"""vf driver: `vf check <property> [--tier quick|thorough]`, `vf replay <path>`.

Exit codes: 0 held on everything explored (KNOWN-FINDING lines allowed), 1 violation (VIOLATION lines),
2 inconclusive (solver unknown / unsupported construct / uncovered must-reach line), 3 harness error.
"""
from __future__ import annotations

import argparse
import importlib
import json
import multiprocessing as mp
import os
import re
import sys
import time
import traceback

VERIF = os.path.dirname(os.path.abspath(__file__))
EVIDENCE = os.path.join(VERIF, "evidence")


def _run_task(args):
    modname, hname, cfg, tier, seed = args
    try:
        mod = importlib.import_module(modname)
        r = dict(mod.run(hname, cfg, tier, seed))
        r["hname"] = hname
        # auto-escalate the bit-vector width when the interval analysis could not exclude wrap-around
        for w in (96, 128):
            if not any("overflow of the" in i for i in r.get("inconclusive", [])):
                break
            if cfg.get("W", 0) >= w:
                continue
            cfg = dict(cfg, W=w)
            r = dict(mod.run(hname, cfg, tier, seed))
            r["hname"] = hname
        return r
    except BaseException as ex:  # noqa: BLE001
        return dict(property=modname, harness=hname, cfg=cfg, errors=[f"task crashed: {type(ex).__name__}: {ex}\n"
                                                                       f"{traceback.format_exc()[-1500:]}"],
                    violations=[], known=[], inconclusive=[], paths=0, feasible_paths=0, decisions=0, obligations=0,
                    discharged=0, witnesses=0, witness_failures=[], samples=[], funcs=[], lines=[], solver_s=0.0,
                    int_checks=0, bv_checks=0, wall_s=0.0, unrealisable=0, exceptions={}, exhausted=0, notes=[])


def check(prop, tier, seed, jobs):
    t0 = time.time()
    modname = f"harness.{prop.lower()}"
    try:
        mod = importlib.import_module(modname)
    except ModuleNotFoundError:
        print(f"vf: no harness for {prop}", file=sys.stderr)
        return 3
    meta = getattr(mod, "META", {})
    pre_errors = []
    pre_info = {}
    if hasattr(mod, "precheck"):
        try:
            pre_info = mod.precheck(tier, seed) or {}
            pre_errors = pre_info.pop("errors", [])
        except Exception as ex:  # noqa: BLE001
            pre_errors = [f"precheck crashed: {type(ex).__name__}: {ex}\n{traceback.format_exc()[-1200:]}"]
    tasks = mod.tasks(tier)
    args = [(modname, h, cfg, tier, seed) for h, cfg in tasks]
    split = getattr(mod, "SPLIT_DEPTH", 0) if jobs > 1 else 0
    if tier == "thorough" and jobs > 1:
        split = getattr(mod, "SPLIT_DEPTH_THOROUGH", split)
    if split:
        args = [(m_, h, dict(cfg, _split=split), t_, s_) for (m_, h, cfg, t_, s_) in args]

    def run_all(arglist):
        out = []
        if jobs <= 1 or len(arglist) <= 1:
            return [_run_task(a) for a in arglist]
        ctx = mp.get_context("fork")
        with ctx.Pool(min(jobs, len(arglist)), maxtasksperchild=1) as pool:
            for r in pool.imap_unordered(_run_task, arglist, chunksize=1):
                out.append(r)
        return out

    results = run_all(args)
    if split:
        # second phase: the decision prefixes that reached the split depth are explored by separate workers
        sub = []
        for r in results:
            base = {k: v for k, v in (r.get("cfg") or {}).items() if k not in ("_split", "_prefix")}
            r["cfg"] = base
            for pfx in r.get("pending", []):
                sub.append((modname, r.get("hname", "read"), dict(base, _prefix=pfx), tier, seed))
        subres = run_all(sub) if sub else []
        by_cfg = {json.dumps(r["cfg"], sort_keys=True, default=str): r for r in results}
        for sr in subres:
            base = {k: v for k, v in (sr.get("cfg") or {}).items() if k not in ("_split", "_prefix")}
            tgt = by_cfg.get(json.dumps(base, sort_keys=True, default=str))
            if tgt is None:
                sr["cfg"] = base
                results.append(sr)
                continue
            for k in ("paths", "feasible_paths", "decisions", "obligations", "discharged", "witnesses", "unrealisable",
                      "solver_s", "int_checks", "bv_checks", "exhausted", "int_decides", "wide_witnesses"):
                tgt[k] = tgt.get(k, 0) + sr.get(k, 0)
            for k in ("violations", "known", "witness_failures", "inconclusive", "errors", "notes", "samples"):
                tgt[k] = list(tgt.get(k, [])) + [x for x in sr.get(k, []) if k != "known" or x not in tgt.get(k, [])]
            tgt["funcs"] = sorted(set(tgt.get("funcs", [])) | set(sr.get("funcs", [])))
            tgt["lines"] = sorted({tuple(x) for x in tgt.get("lines", [])} | {tuple(x) for x in sr.get("lines", [])})
            tgt["wall_s"] = round(tgt.get("wall_s", 0) + sr.get("wall_s", 0), 2)
            for k, v in sr.get("exceptions", {}).items():
                tgt.setdefault("exceptions", {})[k] = tgt.get("exceptions", {}).get(k, 0) + v
    results.sort(key=lambda r: json.dumps(r.get("cfg"), sort_keys=True, default=str))

    violations = [v for r in results for v in r["violations"]]
    # a precheck may itself demonstrate a violation on the real code
    violations += pre_info.pop("violations", [])
    errors = pre_errors + [e for r in results for e in r["errors"]] + [f"witness: {w}" for r in results for w in
                                                                       r["witness_failures"]]
    inconclusive = [i for r in results for i in r["inconclusive"]]
    known = sorted({k for r in results for k in r["known"]} | set(pre_info.pop("known", [])))

    # must-reach lines (vacuity guard)
    covered = {(f, l) for r in results for (f, l) in map(tuple, r["lines"])}
    covered |= {tuple(x) for x in pre_info.pop("lines", [])}
    must = []
    for path, pattern in meta.get("must_reach", []):
        try:
            src = open(path).read().splitlines()
        except OSError:
            continue
        rx = re.compile(pattern)
        for no, line in enumerate(src, 1):
            if rx.search(line):
                must.append((path, no, (path, no) in covered, line.strip()[:80]))
    unreached = [m for m in must if not m[2]]
    if unreached and not violations:
        inconclusive.append("must-reach lines not covered: " + "; ".join(f"{os.path.basename(p)}:{n} {t}" for p, n, _, t
                                                                        in unreached[:6]))

    known_db = {}
    try:
        with open(os.path.join(VERIF, "known_findings.json")) as fh:
            for k in json.load(fh).get("findings", []):
                known_db[k["id"]] = k
    except FileNotFoundError:
        pass

    states = sum(r["feasible_paths"] for r in results) + pre_info.get("states", 0)
    transitions = sum(r["decisions"] for r in results) + pre_info.get("transitions", 0)
    witnesses = sum(r["witnesses"] for r in results) + pre_info.get("traces", 0)
    samples = [s for r in results for s in r["samples"]][:6] + pre_info.get("samples", [])[:4]
    if not samples:
        samples = [dict(cfg=r.get("cfg"), paths=r["feasible_paths"]) for r in results[:3]]
    funcs = sorted({f for r in results for f in r["funcs"]} | set(pre_info.get("funcs", [])))
    ev = dict(
        property_id=prop, tier=tier, seed=seed, level=meta.get("level", "model_checking"),
        coverage=dict(
            states=max(states, 0), transitions=max(transitions, 0), traces_validated_against_impl=witnesses,
            samples=samples,
            obligations=sum(r["obligations"] for r in results) + pre_info.get("obligations", 0),
            discharged=sum(r["discharged"] for r in results) + pre_info.get("discharged", 0),
            configs=len(results), functions_encoded=funcs,
            queries=dict(steering=sum(r["int_checks"] for r in results), deciding=sum(r["bv_checks"] + r.get("int_decides", 0) for r in results)
                         + pre_info.get("queries", 0), deciding_bv=sum(r["bv_checks"] for r in results),
                         deciding_int=sum(r.get("int_decides", 0) for r in results), unknown=len([i for i in inconclusive if i.startswith("solver")])),
            solver_s=round(sum(r["solver_s"] for r in results) + pre_info.get("solver_s", 0.0), 2),
            paths_total=sum(r["paths"] for r in results),
            wide_offset_witnesses=sum(r.get("wide_witnesses", 0) for r in results),
            unrealisable_counterexamples=sum(r.get("unrealisable", 0) for r in results),
            exceptions_on_feasible_paths={k: sum(r.get("exceptions", {}).get(k, 0) for r in results)
                                          for k in {k for r in results for k in r.get("exceptions", {})}},
            must_reach=dict(total=len(must), covered=len(must) - len(unreached)),
            known_findings_hit=known, bounds=meta.get("bounds", ""), outside_the_claim=meta.get("outside", []),
            per_config=[dict(harness=r["harness"], cfg={k: v for k, v in (r.get("cfg") or {}).items() if k != "pins"},
                             paths=r["feasible_paths"], obligations=r["obligations"], discharged=r["discharged"],
                             witnesses=r["witnesses"], wall_s=r["wall_s"]) for r in results],
            precheck=pre_info.get("summary", ""), notes=[n for r in results for n in r.get("notes", [])][:20],
            inconclusive=inconclusive[:20], harness_errors=[e[:400] for e in errors[:20]],
            explanation=meta.get("explanation", ""),
        ),
        assumptions=meta.get("assumptions", []),
        wall_s=round(time.time() - t0, 2),
        violations=len(violations),
    )
    if ev["coverage"]["states"] < 1:
        ev["coverage"]["states"] = 0
    os.makedirs(EVIDENCE, exist_ok=True)
    with open(os.path.join(EVIDENCE, f"{prop}.json"), "w") as fh:
        json.dump(ev, fh, indent=1, default=str)

    for k in known:
        what = known_db.get(k, {}).get("what", k)
        print(f"KNOWN-FINDING: property={prop} {what}")
    for v in violations:
        print(f"VIOLATION property={prop} replay={v['replay']}")
        print(f"  {v.get('what')} :: {v.get('detail')} :: {json.dumps(v.get('vars'), default=str)[:300]}")
    for e in errors[:10]:
        print(f"HARNESS-ERROR {e[:600]}", file=sys.stderr)
    for i in inconclusive[:10]:
        print(f"INCONCLUSIVE {i[:400]}", file=sys.stderr)
    print(f"vf: {prop} tier={tier} configs={len(results)} paths={states} obligations={ev['coverage']['obligations']} "
          f"discharged={ev['coverage']['discharged']} witnesses={witnesses} known={len(known)} "
          f"violations={len(violations)} wall={ev['wall_s']}s")
    if violations:
        return 1
    if errors:
        return 3
    if inconclusive:
        return 2
    return 0


def do_replay(path):
    from symx import replay

    with open(path) as fh:
        desc = json.load(fh)
    verdict, detail = replay.run_replay(desc)
    print(f"replay {path}: {verdict}: {detail}")
    if verdict == "violation":
        print(f"VIOLATION property={desc.get('property')} replay={path}")
        return 1
    return 0 if verdict == "ok" else 3


def main():
    ap = argparse.ArgumentParser(prog="vf")
    sub = ap.add_subparsers(dest="cmd", required=True)
    c = sub.add_parser("check")
    c.add_argument("property")
    c.add_argument("--tier", default=os.environ.get("VERIF_TIER", "quick"), choices=["quick", "thorough"])
    c.add_argument("--jobs", type=int, default=int(os.environ.get("VF_JOBS", "16")))
    r = sub.add_parser("replay")
    r.add_argument("path")
    a = ap.parse_args()
    os.chdir(VERIF)
    if a.cmd == "check":
        try:
            seed = int(os.environ.get("VERIF_SEED", "0"))
        except ValueError:
            seed = 0
        return check(a.property.upper(), a.tier, seed, a.jobs)
    if a.cmd == "replay":
        return do_replay(a.path)
    return 3


if __name__ == "__main__":
    sys.exit(main())

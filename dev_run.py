import sys, json, importlib, time
sys.path.insert(0, '/verif')
prop, idx = sys.argv[1], int(sys.argv[2])
tier = sys.argv[3] if len(sys.argv) > 3 else "quick"
mod = importlib.import_module(f"harness.{prop.lower()}")
h, cfg = mod.tasks(tier)[idx]
print(h, cfg, flush=True)
t = time.time()
r = mod.run(h, cfg, tier, 0)
r = dict(r); r.pop("lines", None); r["funcs"] = len(r["funcs"])
print(json.dumps(r, indent=1, default=str)[:6000])
print("wall", time.time() - t)

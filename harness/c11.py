"""C11 - Termination and bounded resources on arbitrary input."""
from __future__ import annotations

from harness import faults, hds, qcow2, vdi, vhd, vhdx, vmdk

MB = 1 << 20

META = dict(
    level="model_checking",
    bounds="fault mode = the read harnesses of C01-C06 with every well-formedness assumption dropped (table words, sizes and "
           "placements arbitrary; only the magic/geometry pins that select the configuration remain): every loop must leave "
           "within the decision budget derived from the request (a feasible path that exhausts it is solved, replayed under a "
           "watchdog and reported), the result is at most one unit longer than requested, every inflate call carries an output "
           "cap of at most one allocation unit. Reference walks: Parallels snapshot chain over <= 4 shots with symbolic parent "
           "pointers; Hyper-V key-table entry walk over a symbolic table of 64 bytes; Hyper-V object tables with symbolic "
           "entry types/offsets (<= 2 entries per table)",
    outside=["byte-level corruption of text/XML inputs and of the tar/envelope containers (C-level parsers)", "CPU/memory of "
             "zlib itself", "files shorter than the structures the reader touches are modelled only where the reader "
             "observes the file size (VHD, VMDK)"],
    assumptions=["stubs as C01-C06; zlib output length is any value the cap allows (unbounded without a cap)"],
    must_reach=[],
)
SPLIT_DEPTH = 12


def tasks(tier):
    out = [("qcow2", dict(cluster_bits=12, n_clusters=1, fault=True, max_decisions=400)),
           ("vmdk", dict(kind="kdmv", grain_size=8, ngte=512, flags=0x30000, n_grains=1, fault=True, max_decisions=400)),
           ("vmdk", dict(kind="kdmv", grain_size=8, ngte=512, n_grains=1, fault=True, max_decisions=400)),
           ("vdi", dict(block_size=4096, n_blocks=2, fault=True, max_decisions=300)),
           ("vhd", dict(kind="dynamic", block_size=4096, n_blocks=2, fault=True, max_decisions=300)),
           ("hds", dict(version=1, tracks=8, n_clusters=2, fault=True, max_decisions=300)),
           ("vhdx", dict(block_size=MB, sector_size=4096, max_count=2, has_parent=True, fault=True, max_decisions=300)),
           ("snapshot_chain", dict(n=3)), ("snapshot_chain", dict(n=4)),
           ("keytable_walk", dict(size=64)),
           ("object_tables", dict(n=2))]
    return out


def run(hname, cfg, tier, seed):
    if hname in ("snapshot_chain", "keytable_walk", "object_tables"):
        return getattr(faults, hname + "_task")("C11", cfg, tier, seed)
    mod = dict(vhdx=vhdx, vhd=vhd, vdi=vdi, hds=hds, qcow2=qcow2, vmdk=vmdk)[hname]
    return mod.read_task("C11", cfg, tier, seed)

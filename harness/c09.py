"""C09 - Parsing never modifies evidence (read-only operation)."""
from __future__ import annotations

import ast
import glob

from harness import paths

META = dict(
    level="model_checking",
    bounds="every entry point that takes a path (vhdx.open_parent, VMDK(path) on descriptors with 0..2 parent-hint forms and "
           "1..3 extents, HDD(path)/HDD.open with relative and absolute image names, tools.envelope.main) is executed over a "
           "symbolic file system: existence of each candidate path is a symbolic boolean, so every combination of present "
           "and missing files is explored; every open() mode and every path/handle method is monitored. In addition the "
           "handle monitor is active in all read harnesses of C01-C08 (any attribute other than seek/read/tell raises).",
    outside=["C-level behaviour of expat/zlib/pycryptodome", "files opened by the interpreter itself",
             "the syntactic inventory below is a vacuity guard, not the deciding step"],
    assumptions=["path algebra is PurePosixPath arithmetic; readers behind opened handles are stand-ins (their handle use is "
                 "monitored in C01-C08)"],
    must_reach=[(paths.HDD_SRC, r"return path\.open\(|return \(root / path\)\.open\("),
                (paths.VMDK_SRC, r"\.open\(\"rb\"\)"), (paths.TOOL_SRC, r"args\.output\.open")],
)


def tasks(tier):
    out = [("vhdx_parent", dict(locator=dict(relative_path="..\\base\\parent.vhdx",
                                             absolute_win32_path="C:\\vms\\base\\parent.vhdx"))),
           ("vmdk_descriptor", dict(hint=None, extents=['RW 8 VMFS "disk-flat.vmdk"'])),
           ("vmdk_descriptor", dict(hint="parent.vmdk", extents=['RW 8 VMFSSPARSE "disk-delta.vmdk"'])),
           ("vmdk_descriptor", dict(hint="/vmfs/volumes/ds1/base/parent.vmdk",
                                    extents=['RW 8 SPARSE "disk-s001.vmdk"', 'RW 8 SPARSE "disk-s002.vmdk"',
                                             'RW 8 SESPARSE "disk-sesparse.vmdk"'])),
           ("hdd", dict(base_file="base.hds", top_file="top.hds")),
           ("hdd", dict(base_file="/orig/vm.pvm/vm.hdd/base.hds", top_file="/orig/vm.pvm/vm.hdd/top.hds")),
           ("hdd", dict(base_file="/orig/vm.pvm/vm.hdd/base.hds", top_file="top.hds", base_type="Plain")),
           ("envelope_tool", {})]
    return out


def run(hname, cfg, tier, seed):
    return getattr(paths, f"{hname}_task")("C09", cfg, tier, seed)


def precheck(tier, seed):
    """Vacuity guard (syntactic, not the deciding step): inventory of call sites that open or mutate files."""
    sites = []
    for path in sorted(glob.glob("/repo/dissect/hypervisor/**/*.py", recursive=True)):
        tree = ast.parse(open(path).read())
        for node in ast.walk(tree):
            if isinstance(node, ast.Call):
                f = node.func
                name = f.attr if isinstance(f, ast.Attribute) else f.id if isinstance(f, ast.Name) else None
                if name in ("open", "write", "write_text", "write_bytes", "unlink", "rename", "replace", "truncate", "touch",
                            "mkdir", "rmdir", "chmod", "remove"):
                    mode = None
                    if name == "open" and node.args and isinstance(node.args[-1], ast.Constant):
                        mode = node.args[-1].value
                    sites.append(dict(file=path[len("/repo/"):], line=node.lineno, call=name, mode=mode))
    return dict(errors=[], samples=[dict(kind="inventory of open/mutate call sites", sites=sites[:40])],
                summary=f"{len(sites)} syntactic open/mutate call sites inventoried (vacuity guard)")

"""C17: real HyperVFile.__init__, key tables and entries on a symbolic VMCX/VMRS skeleton: k key tables (one entry each) with
symbolic index, sequence number, entry type/flags/parent reference/key and value bytes, plus one file object."""
from __future__ import annotations

from harness.common import Ctx, Scenario, files_desc, mi
from harness.gates import HV_SRC, hyperv_load
from harness.meta import _is_file_range
from symx import core, files, stubs
from symx.files import SymFile
from symx.sstr import SymStr

TBL = [0x4000, 0x5000, 0x6000]
FOBJ = 0x8000
TSIZE = 96     # bytes of each key table object
HDR = 10       # key table header
EH = 21        # entry header


def tree_task(prop, cfg, tier, seed):
    """cfg: ntables (2|3), value ('int'|'uint'|'bool'|'string'|'pointer'|'node'): type of the entry of table 0"""
    nt = cfg.get("ntables", 2)
    vkind = cfg.get("value", "int")
    core.set_width(72)
    m = hyperv_load()
    m.memoryview = lambda b: b
    m.KeyDataType = stubs.EnumStub(m.KeyDataType)
    m.KeyDataFlag = stubs.FlagStub(m.KeyDataFlag)
    m.ObjectEntryType = stubs.EnumStub(m.ObjectEntryType, strict=False)
    ctx = Ctx(prop, "hyperv.tree", cfg, tier, seed, engine_kw=dict(max_decisions=800))
    TYPE = dict(int=3, uint=4, bool=8, string=6, pointer=6, node=9)[vkind]

    def body(E, ctx):
        E.structural_bytes_eq = True
        fh = SymFile("img")
        w = lambda a, n, signed=False: files.word_at("img", a, n, "le", signed)
        A = E.assume
        # headers
        seq = [w(8, 2), w(0x1008, 2)]
        for base in (0, 0x1000):
            A(w(base, 4) == 0x01282014)
            A(w(base + 10, 4) == 0x400)
            A(w(base + 26, 8) == 0x3000)
        A(w(0x3000, 4) == 0x01110003)
        A(w(0x3008, 4) == 0)
        # object table: nt key tables + one file object
        A(w(0x2000, 4) == 0x01110001)
        A(w(0x2004, 4) == nt + 1)
        for k in range(nt + 1):
            eo = 0x2008 + 18 * k
            A(files.byte_at("img", eo) == (2 if k < nt else 3))
            A(w(eo + 5, 8) == (TBL[k] if k < nt else FOBJ))
            A(w(eo + 13, 4) == (TSIZE if k < nt else 0x1000))
            A(files.byte_at("img", eo + 17) == 1)
        tabs = []
        for k in range(nt):
            t = TBL[k]
            A(w(t, 2) == 2)
            idx = E.assume_range(w(t + 2, 2), 1, 2)
            sq = w(t + 4, 2)
            e = t + HDR
            typ = w(e, 2)
            size = E.assume_range(w(e + 2, 4), EH + 2, TSIZE - HDR - EH - 1)
            pidx = E.assume_range(w(e + 6, 2), 0, 2)
            poff = w(e + 8, 4)
            doff = E.assume_range(files.byte_at("img", e + 20), 2, 24)  # non-empty key (sibling keys are distinct)
            A(EH + doff + 12 <= size)
            # the walk ends after this entry
            A(w(e + size + 2, 4) == 0)
            if k == 0:
                A(typ % 256 == TYPE)
                A(typ < 512)  # only the pointer flag may be set
                A((typ >> 8) == (1 if vkind == "pointer" else 0))
            else:
                A(core.sym_or(typ == 9, typ == 1))  # a node, or a free entry
            tabs.append(dict(off=t, idx=idx, seq=sq, e=e, typ=typ, size=size, pidx=pidx, poff=poff, doff=doff))
        # well-formed parent references: the root, or the (single) entry of some table with a smaller index (acyclic)
        for t in tabs:
            A(core.sym_or(t["pidx"] == 0, core.sym_and(t["poff"] == HDR, t["pidx"] < t["idx"],
                                                         core.sym_or(*[u["idx"] == t["pidx"] for u in tabs]))))
        # a parent is a node (not a free entry), whichever table of that index is the active one
        for t in tabs:
            for u in tabs:
                if u is not t:
                    A(core.sym_or(t["pidx"] == 0, u["idx"] != t["pidx"], u["typ"] == 9))
        if vkind == "pointer":
            # the pointer names the file object of the object table
            A(w(tabs[0]["e"] + EH + tabs[0]["doff"] + 4, 8) == FOBJ)
            A(w(tabs[0]["e"] + EH + tabs[0]["doff"], 4) % 2 == 0)  # UTF-16: whole code units
        if vkind == "string":
            A(w(tabs[0]["e"] + EH + tabs[0]["doff"], 4) % 2 == 0)
            A(w(tabs[0]["e"] + EH + tabs[0]["doff"], 4) + EH + tabs[0]["doff"] + 4 <= tabs[0]["size"])
        vars_ = dict(seq0=seq[0], seq1=seq[1])
        for k, t in enumerate(tabs):
            vars_.update({f"t{k}_index": t["idx"], f"t{k}_seq": t["seq"], f"t{k}_type": t["typ"], f"t{k}_parent_idx": t["pidx"],
                          f"t{k}_parent_off": t["poff"], f"t{k}_size": t["size"], f"t{k}_data_offset": t["doff"]})

        def build(model):
            fd = files_desc(model, E.apps, seed, ("img",), size=1 << 20)
            fd["img"]["ascii"] = True
            return dict(entry="hyperv_tree", params=dict(ntables=nt), files=fd, call=["tree"])

        def expect(model, desc):
            return dict(hyperv_tree=_reference_tree(desc, nt))

        ctx.scenario = Scenario(vars_, build, expect)
        hf = m.HyperVFile(fh)
        bad = []
        # 1. active header
        first = seq[0] > seq[1]
        bad.append(core.sym_not(first) if hf.header is hf.headers[0] else first)
        # 2. active table per index: the one with the largest sequence number
        active = {}
        for i in (1, 2):
            lst = None
            for key in list(hf.key_tables.keys()):
                if bool(key == i):
                    lst = hf.key_tables[key]
            if lst:
                act = lst[0]
                active[i] = act
                for t in tabs:
                    bad.append(core.sym_and(t["idx"] == i, t["seq"] > act.sequence_number))
                bad.append(core.sym_not(core.sym_or(*[core.sym_and(t["idx"] == i, t["off"] == act.offset) for t in tabs])))
            else:
                bad.append(core.sym_or(*[t["idx"] == i for t in tabs]))
        # 3. tree membership
        placed = []
        for key, ent in list(hf.root.items()):
            placed.append((None, key, ent))
        for tb in active.values():
            for ent in tb.entries:
                for key, ch in list(ent.children.items()):
                    placed.append((ent, key, ch))
        expected = 0
        for t in tabs:
            is_active = any(act.offset == t["off"] for act in active.values())
            free = bool(t["typ"] % 256 == 1)
            if not is_active or free:
                # must not be placed anywhere
                for par, key, ent in placed:
                    if ent.table.offset == t["off"]:
                        bad.append(True)
                continue
            expected += 1
            mine = [(par, key, ent) for par, key, ent in placed if ent.table.offset == t["off"]]
            if len(mine) != 1:
                bad.append(True)
                continue
            par, key, ent = mine[0]
            if bool(t["pidx"] == 0):
                bad.append(par is not None)
            else:
                ok = par is not None and any(bool(t["pidx"] == i) and par.table is act for i, act in active.items())
                bad.append(not ok)
                if par is not None:
                    bad.append(par.offset != t["poff"])
            # 4. key = utf-8 of raw[21 : 21 + data_offset - 1]
            if not isinstance(key, SymStr) or key.codec != "utf-8" or key.xf:
                bad.append(True)
            else:
                bad.append(core.sym_not(_is_file_range(key, t["e"] + EH, t["doff"] - 1, E)))
        if len(placed) != expected:
            bad.append(True)
        # 5. value of the entry of table 0 (when it is in the tree)
        t0 = tabs[0]
        mine = [ent for par, key, ent in placed if ent.table.offset == t0["off"]]
        if mine and vkind != "node":
            val = mine[0].value
            vp = t0["e"] + EH + t0["doff"]
            if vkind == "int":
                bad.append(val != w(vp, 8, True))
            elif vkind == "uint":
                bad.append(val != w(vp, 8))
            elif vkind == "bool":
                exp = w(vp, 4) != 0
                bad.append((val != exp) if isinstance(val, bool) and isinstance(exp, bool) else
                           core.sym_not(core.sym_or(core.sym_and(val, exp), core.sym_and(core.sym_not(val), core.sym_not(exp)))))
            elif vkind == "string":
                ln = w(vp, 4)
                ok = isinstance(val, SymStr) and val.codec == "utf-16-le" and not val.xf
                bad.append(True if not ok else core.sym_not(_is_file_range(val, vp + 4, core.sym_min(ln, core.sym_max(t0["e"] + t0["size"] - vp - 4, 0)), E)))
            elif vkind == "pointer":
                psize, poff_ = w(vp, 4), w(vp + 4, 8)
                ok = isinstance(val, SymStr) and val.codec == "utf-16-le"
                bad.append(True if not ok else core.sym_not(core.sym_and(poff_ == FOBJ, _is_file_range(val, FOBJ, core.sym_min(psize, 0x1000), E))))
        if ctx.obligation(bad, "decoded tree differs from the stored key/value tree"):
            ctx.witness()

    from harness.common import fault_mode
    ctx.raises_ok = None
    return ctx.run(body, cov_files=[HV_SRC])


def _reference_tree(desc, nt):
    """Independent concrete decoding of the skeleton image (documented VMCX layout) -> comparable structure."""
    import struct

    from symx import replay_entries

    f = replay_entries.mkfile(desc["files"]["img"])

    def rd(a, n):
        f.seek(a)
        return f.read(n)

    s0, s1 = struct.unpack("<H", rd(8, 2))[0], struct.unpack("<H", rd(0x1008, 2))[0]
    tables = {}
    for k in range(nt):
        t = TBL[k]
        idx, sq = struct.unpack("<HH", rd(t + 2, 4))
        e = t + HDR
        typ, size, pidx, poff = struct.unpack("<HIHI", rd(e, 12))
        doff = rd(e + 20, 1)[0]
        ent = dict(table=t, type=typ & 0xFF, flags=typ >> 8, pidx=pidx, poff=poff, key=rd(e + EH, doff - 1).decode("utf-8", "replace"),
                   vp=e + EH + doff, end=e + size, off=HDR)
        cur = tables.get(idx)
        if cur is None or sq > cur["seq"]:
            tables[idx] = dict(seq=sq, off=t, ent=ent)
    nodes = []
    for idx, tb in sorted(tables.items()):
        ent = tb["ent"]
        if ent["type"] == 1:
            continue
        parent = None
        if ent["pidx"]:
            ptab = tables.get(ent["pidx"])
            if ptab is None or ent["poff"] != HDR or ptab["ent"]["type"] == 1 and False:
                raise KeyError("parent")
            parent = ptab["off"]
        val = None
        if ent["table"] == TBL[0]:
            vp = ent["vp"]
            if ent["type"] == 3:
                val = struct.unpack("<q", rd(vp, 8))[0]
            elif ent["type"] == 4:
                val = struct.unpack("<Q", rd(vp, 8))[0]
            elif ent["type"] == 8:
                val = struct.unpack("<I", rd(vp, 4))[0] != 0
            elif ent["type"] == 6 and not ent["flags"] & 1:
                ln = struct.unpack("<I", rd(vp, 4))[0]
                val = rd(vp + 4, max(min(ln, ent["end"] - vp - 4), 0)).decode("utf-16-le", "replace")
            elif ent["type"] == 6:
                psize, po = struct.unpack("<IQ", rd(vp, 12))
                val = rd(po, min(psize, 0x1000)).decode("utf-16-le", "replace") if po == FOBJ else "<unknown file object>"
        nodes.append([ent["table"], parent, ent["key"], val if not isinstance(val, bool) else int(val)])
    return dict(first_header=s0 > s1, nodes=sorted(nodes, key=lambda x: x[0]))

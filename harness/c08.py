"""C08 - A disk stream behaves as an immutable byte array under any access history."""
from __future__ import annotations

from harness import hds, qcow2, stream, vdi, vhd, vhdx, vmdk

MB = 1 << 20

META = dict(
    level="model_checking",
    bounds="lemma 1 (back-end contract incl. requests running past the end of the disk): one configuration per reader, "
           "request <= 1 unit; lemma 2 (one step of the real AlignedStream.read/peek/seek/readoffset from an arbitrary valid "
           "state over any conforming back-end): align in {512, 8192, 65536} (quick: 512, 8192), size/position/argument "
           "symbolic up to 2^62; lemma 3 (an arbitrary earlier request with the real lru_cache/cached_property in place "
           "is invisible): VHDX and QCOW2, both requests <= 1 unit. Histories of any length follow by the written induction.",
    outside=["cache eviction (128/4096 entries) is not exercised symbolically: unobservable for a correct memoiser", "readinto "
             "(C-level buffer protocol; it calls read)", "thread interleavings", "the composition of the three lemmas is a "
             "written argument"],
    assumptions=["functools.lru_cache/cached_property return what the function returned for an equal key", "stubs as C01-C06"],
    must_reach=[(stream.SRC, r"r\.append\(self\._read\(self\._pos, read_len\)\)|self\._buf = self\._read\(")],
)
SPLIT_DEPTH = 12


def tasks(tier):
    out = []
    aligns = (512, 8192) if tier == "quick" else (512, 4096, 8192, 65536)
    for a in aligns:
        for op in ("read", "peek", "seek0", "seek1", "seek2", "readoffset"):
            out.append(("stream", dict(align=a, op=op)))
    out.append(("vhdx", dict(block_size=MB, sector_size=4096, max_count=4, tail=True, via="_read")))
    out.append(("vhd", dict(kind="dynamic", block_size=1 << 21, n_blocks=1, tail=True)))
    out.append(("vhd", dict(kind="fixed", tail=True, max_len=1 << 20)))
    out.append(("vdi", dict(block_size=1 << 20, n_blocks=1, tail=True)))
    out.append(("hds", dict(version=2, tracks=256, n_clusters=1, tail=True)))
    out.append(("qcow2", dict(cluster_bits=16, n_clusters=1, tail=True)))
    out.append(("vmdk", dict(kind="kdmv", grain_size=128, ngte=512, n_grains=1, tail=True)))
    out.append(("vhdx", dict(block_size=MB, sector_size=4096, max_count=1 if tier == "quick" else 2, prime=True,
                             prime_count=1 if tier == "quick" else 2)))
    out.append(("vhdx", dict(block_size=MB, sector_size=4096, max_count=1, prime=True, prime_count=1, has_parent=True,
                             force_partial=True, prime_same=True)))
    out.append(("qcow2", dict(cluster_bits=16, n_clusters=1, max_len=512 if tier == "quick" else 1024, prime=True,
                              prime_len=512)))
    return out


def run(hname, cfg, tier, seed):
    if hname == "stream":
        return stream.step_task("C08", cfg, tier, seed)
    mod = dict(vhdx=vhdx, vhd=vhd, vdi=vdi, hds=hds, qcow2=qcow2, vmdk=vmdk)[hname]
    return mod.read_task("C08", cfg, tier, seed)

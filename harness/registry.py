"""One table of what is claimed and how; tools/gen_manifest.py renders MANIFEST.json from it."""

CLAIMED = {}
NOT_APPLICABLE = {}


def claim(pid, text, note, technique, design_ref, category="model_checking"):
    CLAIMED[pid] = dict(text=text, note=note, technique=technique, design_ref=design_ref, category=category)


SYMX = ("bounded symbolic execution of the real Python reader on proxy values (own engine 'symx'); every obligation is "
        "decided by z3 (QF_UFBV) over all values of the symbolic inputs within the stated bounds; counterexamples are "
        "replayed on the unpatched code before being reported")
TRUST = ("trusted: z3, CPython, dissect.cstruct (layouts are learned from it and validated each run), the stubs listed in "
         "DESIGN.md section 2.5, my reading of the format specification in the oracle; bounded: see evidence bounds")

claim("C03",
      "For every enumerated (block size, sector size) and every symbolic virtual size, BAT placement, BAT content and "
      "request of up to N blocks, the real VHDX.read_sectors/_read return exactly the bytes the [MS-VHDX] oracle names; "
      "decided per path by z3, with solver-generated witness images replayed through the unpatched reader. Bounded "
      "model checking of the implementation is the right level: the interesting inputs are rare points of a 64-bit space.",
      TRUST, "symbolic execution of vhdx.py + z3 equivalence against a specification oracle", "4.3")

claim("C05",
      "For every enumerated block size and every symbolic header (offBlocks, offData, DiskSize, BlocksInHDD), block map "
      "and 512-aligned request of up to N blocks, the real VDI.__init__ + VDI._read return exactly the bytes the "
      "VDICore.h oracle names, decided per path by z3; witness images are replayed through the unpatched VDI class.",
      TRUST, "symbolic execution of vdi.py + z3 equivalence against a specification oracle", "4.5")

claim("C04",
      "For fixed and dynamic VHDs, every enumerated block size and every symbolic file size, footer placement (512/511 "
      "bytes), header fields, BAT content and 512-aligned request of up to N blocks, the real read_footer/VHD.__init__/"
      "FixedDisk/DynamicDisk/BlockAllocationTable code returns exactly the bytes the VHD-specification oracle names "
      "(reads past EOF modelled as short); decided per path by z3, witnesses replayed through the unpatched VHD class.",
      TRUST, "symbolic execution of vhd.py + z3 equivalence against a specification oracle", "4.4")

claim("C06",
      "For HDS v1 and v2, every enumerated sectors-per-cluster value (including values that are not a power of two) and "
      "every symbolic BAT length, disk size, BAT content and 512-aligned request of up to N clusters, the real "
      "HDS.__init__/bat/_iter_runs/_read return exactly the bytes the parallels.txt oracle names; decided per path by z3 "
      "(bit-vector and integer encodings), witnesses replayed through the unpatched HDS class.",
      TRUST, "symbolic execution of hdd.py (HDS) + z3 equivalence against a specification oracle", "4.6")

claim("C01",
      "For every enumerated (cluster size, version, L2 format, data-file, backing) configuration and every symbolic "
      "virtual size, L1/L2 placement and content (64-bit), backing length and 512-aligned request of up to N clusters, "
      "the real QCow2.__init__/_read/_yield_runs/_read_compressed and the cluster-type helpers return exactly the bytes "
      "the qcow2.txt oracle names (compressed clusters: the same inflate input range, window and cap); decided per path "
      "by z3, witness images (with crafted deflate streams) replayed through the unpatched QCow2 class.",
      TRUST, "symbolic execution of qcow2.py + z3 equivalence against a specification oracle", "4.1")

claim("C02",
      "For hosted sparse (header- and footer-located grain directory, plain and stream-optimized), COWD, SE-sparse and "
      "flat extents, every enumerated (grain size, table length) and every symbolic file size, capacity, directory/table/"
      "grain placement and content, compressed-grain header and request of up to N grains (including the tail over-read "
      "the buffered layer issues), the real VMDK.__init__/_read/read_sectors, SparseDisk.*, SparseExtentHeader and RawDisk "
      "return exactly the bytes the VMDK-specification oracle names; decided per path by z3, witnesses (with crafted zlib "
      "streams) replayed through the unpatched classes.",
      TRUST, "symbolic execution of vmdk.py + z3 equivalence against a specification oracle", "4.2")

claim("C07",
      "One inductive step over chain depth per reader, each solver-decided: with the parent an arbitrary byte array, the "
      "real VHDX (NOT_PRESENT / PARTIALLY_PRESENT with sector bitmap), VMDK sparse delta, HDS, VDI and QCOW2 (backing file of "
      "symbolic length) read paths return overlay(child, parent) with the parent addressed at the absolute guest offset; "
      "_iter_partial_runs is checked as a unit on symbolic bitmaps. Parent resolution (vhdx.open_parent, VMDK descriptor parentCID/hint, HDD image search and snapshot chain) runs over a symbolic file system: the first existing candidate in the documented order is opened, a missing parent raises.",
      TRUST + "; the induction over chain depth is a written argument", "symbolic execution of the layered read paths + z3 "
      "equivalence against overlay oracles", "4.7")
claim("C12",
      "Every constructor covered runs on a header whose validated fields are free full-width symbolic variables; on each "
      "path that returns normally z3 shows the header satisfies the accept predicate of the property (returns => "
      "supported); counterexamples are replayed as real header bytes through the real constructor. Covered: QCOW2, VDI, "
      "HDS, VMDK sparse header, Hyper-V headers, ESXi envelope, and the VHDX container (<= 2 region entries, <= 4-5 "
      "metadata items; the exposed active header, size, block size, sector size and has_parent are compared with the "
      "stored items on every accepted path).",
      TRUST, "symbolic execution of the constructors + z3 implication 'accepted => supported'", "4.12")

claim("C08",
      "Three solver-decided lemmas: (1) every reader's _read meets the back-end contract, including requests that run past "
      "the end of the disk; (2) one step of the real AlignedStream (read/peek/seek/readoffset, any argument) from an "
      "arbitrary valid state over any contract-conforming back-end returns the right slice, advances the position, "
      "re-establishes the state invariant and only calls the back-end inside its contract; (3) an arbitrary earlier "
      "request with the real lru_cache/cached_property in place does not change a later result (VHDX, QCOW2). Histories "
      "of any length follow by induction (written).",
      TRUST + "; the composition of the lemmas is a written argument", "symbolic execution of dissect.util.stream."
      "AlignedStream and the readers + z3", "4.8")

claim("C13",
      "On every path of the read harnesses the total number of bytes and of calls the reader issues to the (symbolic) file "
      "during open + read is shown by z3 to be bounded by a term of header fields and the request only, so a scan or an "
      "eager load that grows with the allocated data violates it for some table size; all offsets are 64-bit symbolic, and "
      "witness images with tables/data beyond 2^40 bytes and sectors beyond 2^32 are solved for and replayed through the "
      "real readers over a sparse in-memory file.",
      TRUST, "symbolic execution with I/O accounting on the symbolic file + z3 bound obligations; wide-offset witnesses", "4.13")

claim("C10",
      "The extent-line grammar is decided in z3's regular-expression theory on the real compiled RE_EXTENT_DESCRIPTOR (every "
      "conformant line of a type the reader handles is in its language; counterexample strings are replayed on the real "
      "parser). The assembly code - VMDK.__init__ size/offset bookkeeping, read_sectors, _read and StorageStream - is "
      "executed symbolically over 1..3 extents of symbolic size (extent readers are stand-ins presenting 'extent k' bytes): "
      "every request, incl. ones crossing extent boundaries and the tail over-read, equals the concatenation.",
      TRUST, "z3 regex language inclusion on the real pattern + symbolic execution of the assembly code", "4.10")

claim("C20",
      "The real VisorTarInfo.frombuf/_proc_member and the stdlib's TarFile.next/_proc_member/_block run on archives of up to 3 "
      "members whose sizes, visor flag bytes and visor offset fields are symbolic; on every path z3 shows each member's header "
      "position, data offset and size equal the vmtar layout (visor members with a data offset do not skip inline data, all "
      "others skip the padded size) and that exactly the declared members are listed; witnesses are replayed on real tar bytes.",
      TRUST, "symbolic execution of vmtar.py with the stdlib tar iterator + z3", "4.20")

claim("C09",
      "Every entry point that takes a path runs over a symbolic file system (existence of every candidate path is a symbolic "
      "boolean, so all combinations of present and missing files are explored); each open() mode and each path or handle "
      "method is monitored: only read modes are allowed, except the single 'wb' open of the --output file of the decrypt "
      "tool. The handle monitor (any attribute other than seek/read/tell is a violation) is active in every read harness.",
      TRUST + "; the reached call sites are compared with a syntactic inventory only as a vacuity guard",
      "symbolic execution over a symbolic file system with an open-mode/mutation monitor", "4.9")

claim("C11",
      "Fault mode: the read harnesses run with every well-formedness assumption dropped; each path must return or raise within "
      "an unwinding bound derived from the request (a feasible path that exhausts it is solved for a concrete image and "
      "replayed under a watchdog), the result is at most one unit longer than requested and every inflate call carries an "
      "output cap of one allocation unit (replayed with a decompression bomb under zlib instrumentation). Reference walks "
      "(Parallels snapshot chain, Hyper-V key-table entry walk, Hyper-V object tables) run on symbolic pointers/sizes.",
      TRUST, "symbolic execution in fault mode with unwinding assertions + z3; watchdog replays", "4.11")

claim("C15",
      "The real VMX.unlock_with_phrase, KeySafe.from_text/unseal_with_phrase, Pair, Phrase.unwrap, _parse_crypto_dict and "
      "_decrypt_hmac run over an idealised (Dolev-Yao) crypto stub set with the configuration length and the position of an "
      "altered byte symbolic: honest input unlocks to exactly the original content and leaves other entries alone; a wrong "
      "passphrase or one altered byte in either ciphertext or either MAC raises and leaves the configuration unchanged. The "
      "solver decides the slice arithmetic (IV/MAC/padding boundaries, truncated digests); counterexamples are replayed with "
      "real PBKDF2/AES-CBC/HMAC.",
      TRUST + "; cryptographic primitives are idealised", "symbolic execution of vmx.py over idealised cryptography + z3",
      "4.15")

claim("C14",
      "QCOW2: the real constructor and _read_extensions run on a symbolic header-extension area (<= 3 extensions of symbolic type "
      "and length, with and without a backing-file name ending the area) and QCow2.snapshots/QCow2Snapshot on a symbolic "
      "snapshot table (<= 2 entries); z3 shows every exposed attribute (backing format, feature table, data-file name, unknown "
      "extensions, backing-file name, snapshot offsets/L1 fields/id/name) denotes exactly the file range the specification "
      "locates; witnesses replayed through the real classes. VHDX: the real VHDX.__init__/RegionTable/MetadataTable on a symbolic "
      "container (<= 2 region entries, <= 4 metadata items at symbolic data offsets): the header with the larger sequence number "
      "is the one exposed and size/block_size/sector_size/has_parent equal the stored items. Sizes of the other formats are "
      "covered in C01-C06, the Hyper-V header sequence rule in C12.",
      TRUST, "symbolic execution of the metadata parsers + z3 (attributes as (codec, file range) terms)", "4.14")

claim("C17",
      "The real HyperVFile.__init__, HyperVStorageObjectTable, HyperVStorageKeyTable and HyperVStorageKeyTableEntry "
      "(type/flags/parent/key/value/file-object pointer) run on a symbolic VMCX/VMRS skeleton (2..3 key tables with symbolic "
      "index and sequence number, one entry each with symbolic type, size, parent reference, key and value bytes, one file "
      "object): z3 shows the active header and the active table per index are the ones with the largest sequence number, "
      "every non-free entry of an active table hangs under the entry its parent reference names (or the root), its key is the "
      "stored UTF-8 range and its value the type-directed decoding of the stored bytes; witnesses are replayed on real files.",
      TRUST + "; no public specification of the format exists", "symbolic execution of hyperv.py + z3", "4.17")

PENDING = "check not built yet in this round (planned: see DESIGN.md section 4)"
NOT_APPLICABLE["C16"] = ("the property's content (cstruct writers, AES-GCM, PBKDF2) sits behind C boundaries that would have "
                         "to be stubbed; nothing of the repository's own arithmetic would remain to be decided (DESIGN 5)")
NOT_APPLICABLE["C18"] = ("expat/ElementTree and unbounded string processing (strip/lower/partition) are outside what the "
                         "symbolic engine or z3's string theory can encode; CrossHair probes came back inconclusive (DESIGN 5)")
NOT_APPLICABLE["C19"] = ("decided by which parser object is bound at four call sites and by expat's C code; no symbolic-input "
                         "component to encode, a binding check would be a lint (DESIGN 5)")

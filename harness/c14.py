"""C14 - Exposed image metadata and parent references equal what the file stores."""
from __future__ import annotations

from harness import meta

META = dict(
    level="model_checking",
    bounds="QCOW2: header-extension area with <= 3 extensions of symbolic type and length (version 2 and 3, with and without a "
           "backing file name that ends the area), backing file name of symbolic offset/length, virtual size; snapshot table "
           "with <= 2 entries of symbolic extra-data/id/name lengths at an 8-byte aligned symbolic offset. Strings are compared as "
           "(codec, file range) pairs, so any length/character set holds by construction. Sequence-number selection of the "
           "Hyper-V header is checked in C12; VHDX container (real VHDX.__init__/RegionTable/MetadataTable on a symbolic file, <= 2 "
           "region entries, <= 4 metadata items in any of the bounded orders, item data at symbolic offsets): the active header "
           "is the one with the larger sequence number and size/block_size/sector_size/has_parent equal the stored items; virtual sizes of every format are checked in C01-C06 (size obligation).",
    outside=["VHDX parent locator strings; VHDX containers beyond the bounds above", "VMDK descriptor text -> "
             "dict and Parallels DiskDescriptor.xml -> dataclasses (string splitting / expat: not encodable, same reasons as C18)",
             "character decoding itself (bytes.decode is an opaque (codec, range) pair)"],
    assumptions=["dissect.cstruct layouts as learned from the real parser each run"],
    must_reach=[],
)


SPLIT_DEPTH = 10


def tasks(tier):
    out = [("ext", dict(n_ext=2, backing=False)), ("ext", dict(n_ext=2, backing=True)), ("ext", dict(n_ext=1, version=2)),
           ("snap", dict(n=2)), ("vhdx", dict(n_regions=2, n_items=4, regions_canonical=True))]
    if tier == "thorough":
        out += [("ext", dict(n_ext=3, backing=True)), ("ext", dict(n_ext=3, backing=False))]
    return out


def run(hname, cfg, tier, seed):
    if hname == "vhdx":
        from harness import vhdxinit

        return vhdxinit.container_task("C14", cfg, tier, seed)
    if hname == "ext":
        return meta.qcow2_extensions_task("C14", cfg, tier, seed)
    return meta.qcow2_snapshots_task("C14", cfg, tier, seed)

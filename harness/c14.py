"""C14 - Exposed image metadata and parent references equal what the file stores."""
from __future__ import annotations

from harness import meta

META = dict(
    level="model_checking",
    bounds="QCOW2: header-extension area with <= 3 extensions of symbolic type and length (version 2 and 3, with and without a "
           "backing file name that ends the area), backing file name of symbolic offset/length, virtual size; snapshot table "
           "with <= 2 entries of symbolic extra-data/id/name lengths at an 8-byte aligned symbolic offset. Strings are compared as "
           "(codec, file range) pairs, so any length/character set holds by construction. Sequence-number selection of the "
           "Hyper-V header is checked in C12; virtual sizes of every format are checked in C01-C06 (size obligation).",
    outside=["VHDX region/metadata tables and parent locator (GUID-keyed dictionaries: not encoded)", "VMDK descriptor text -> "
             "dict and Parallels DiskDescriptor.xml -> dataclasses (string splitting / expat: not encodable, same reasons as C18)",
             "character decoding itself (bytes.decode is an opaque (codec, range) pair)"],
    assumptions=["dissect.cstruct layouts as learned from the real parser each run"],
    must_reach=[],
)


def tasks(tier):
    out = [("ext", dict(n_ext=2, backing=False)), ("ext", dict(n_ext=2, backing=True)), ("ext", dict(n_ext=1, version=2)),
           ("snap", dict(n=2))]
    if tier == "thorough":
        out += [("ext", dict(n_ext=3, backing=True)), ("ext", dict(n_ext=3, backing=False))]
    return out


def run(hname, cfg, tier, seed):
    if hname == "ext":
        return meta.qcow2_extensions_task("C14", cfg, tier, seed)
    return meta.qcow2_snapshots_task("C14", cfg, tier, seed)

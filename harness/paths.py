"""Entry points that open files by path, executed over a symbolic file system: which paths exist is a symbolic boolean
per path, every open() and every path method is monitored (C09), and the parent that gets opened is checked against the
documented search order (C07). Path algebra (joinpath, parent, name, with_name) is concrete PurePosixPath arithmetic."""
from __future__ import annotations

import io
from pathlib import PurePosixPath

from harness.common import Ctx, Scenario, mi
from symx import core, loader

VMDK_SRC = loader.repo_path("dissect/hypervisor/disk/vmdk.py")
VHDX_SRC = loader.repo_path("dissect/hypervisor/disk/vhdx.py")
HDD_SRC = loader.repo_path("dissect/hypervisor/disk/hdd.py")
TOOL_SRC = loader.repo_path("dissect/hypervisor/tools/envelope.py")

READ_MODES = {"rb", "r", "rt"}
MUTATORS = {"write_text", "write_bytes", "unlink", "rename", "replace", "touch", "mkdir", "rmdir", "chmod", "lchmod",
            "symlink_to", "hardlink_to", "link_to", "truncate"}


class FS:
    """The symbolic file system of one path of the exploration."""

    def __init__(self, E, contents=None, always=()):
        self.E = E
        self.contents = contents or {}   # path string -> bytes (files whose content matters)
        self.always = set(always)        # paths that certainly exist
        self.opens = []                  # (path string, mode)
        self.violations = []
        self.exists_vars = {}

    def exists(self, p):
        s = str(p)
        if s in self.always:
            return True
        if s not in self.exists_vars:
            self.exists_vars[s] = self.E.boolvar("exists:" + s)
        return bool(self.exists_vars[s])


class SymPath:
    def __init__(self, fs, *parts):
        self._fs = fs
        self._p = PurePosixPath(*[str(x._p) if isinstance(x, SymPath) else str(x) for x in parts])

    # -- pure path algebra
    def _new(self, p):
        return SymPath(self._fs, p)

    def joinpath(self, *o):
        return self._new(self._p.joinpath(*[str(x._p) if isinstance(x, SymPath) else str(x) for x in o]))

    def __truediv__(self, o):
        return self.joinpath(o)

    def __rtruediv__(self, o):
        return SymPath(self._fs, o, self)

    @property
    def parent(self):
        return self._new(self._p.parent)

    @property
    def name(self):
        return self._p.name

    @property
    def suffix(self):
        return self._p.suffix

    @property
    def stem(self):
        return self._p.stem

    def with_name(self, n):
        return self._new(self._p.with_name(n))

    def with_suffix(self, s):
        return self._new(self._p.with_suffix(s))

    def is_absolute(self):
        return self._p.is_absolute()

    def resolve(self, strict=False):
        return self

    def absolute(self):
        return self

    def __str__(self):
        return str(self._p)

    def __fspath__(self):
        return str(self._p)

    def __repr__(self):
        return f"SymPath({str(self._p)!r})"

    def __eq__(self, o):
        return isinstance(o, SymPath) and o._p == self._p

    def __hash__(self):
        return hash(self._p)

    # -- file system queries
    def exists(self):
        return self._fs.exists(self._p)

    def is_file(self):
        return self._fs.exists(self._p) and not str(self._p).endswith((".hdd", ".pvm", "/"))

    def is_dir(self):
        return self._fs.exists(self._p) and str(self._p).endswith((".hdd", ".pvm"))

    # -- monitored operations
    def open(self, mode="r", *a, **kw):
        self._fs.opens.append((str(self._p), mode))
        if mode not in READ_MODES:
            self._fs.violations.append(f"open({str(self._p)!r}, {mode!r})")
        if not self._fs.exists(self._p):
            raise FileNotFoundError(2, "No such file or directory", str(self._p))
        data = self._fs.contents.get(str(self._p))
        if data is None:
            h = Handle(str(self._p), self._fs)
            return h
        if "b" in mode:
            f = io.BytesIO(data)
            f.name = str(self._p)
            return f
        return io.StringIO(data.decode())

    def read_text(self, *a, **kw):
        self._fs.opens.append((str(self._p), "r"))
        if not self._fs.exists(self._p):
            raise FileNotFoundError(2, "No such file or directory", str(self._p))
        return self._fs.contents[str(self._p)].decode()

    def read_bytes(self):
        self._fs.opens.append((str(self._p), "rb"))
        if not self._fs.exists(self._p):
            raise FileNotFoundError(2, "No such file or directory", str(self._p))
        return self._fs.contents[str(self._p)]

    def __getattr__(self, k):
        if k in MUTATORS:
            fs = object.__getattribute__(self, "_fs")
            fs.violations.append(f"{k}() on {str(object.__getattribute__(self, '_p'))!r}")

            def deny(*a, **kw):
                raise PermissionError(f"evidence-modifying call {k}")

            return deny
        raise AttributeError(k)


def path_class(fs):
    """A Path class bound to one symbolic file system (so that isinstance(x, Path) works in the code under test)."""

    class Path(SymPath):
        def __init__(self, *parts):
            SymPath.__init__(self, fs, *parts)

        def _new(self, p):
            return Path(p)

    return Path


class Handle:
    """An opened image file whose content does not matter here (the readers behind it are stand-ins)."""

    def __init__(self, name, fs):
        self.name, self.fs, self.pos = name, fs, 0

    def read(self, n=-1):
        return b"\x00" * (n if n and n > 0 else 0)

    def seek(self, off, whence=0):
        self.pos = off
        return off

    def tell(self):
        return self.pos

    def close(self):
        pass

    def __enter__(self):
        return self

    def __exit__(self, *a):
        return False

    def __getattr__(self, k):
        if k in ("write", "writelines", "truncate", "flush"):
            self.fs.violations.append(f"{k}() on handle {self.name!r}")
            raise PermissionError(k)
        raise AttributeError(k)


class Recorder:
    """Stand-in for a reader class: records how it was constructed."""

    log = None

    def __init__(self, *a, **kw):
        self.args, self.kw = a, kw
        self.parent = kw.get("parent")
        self.descriptor = None
        self.size = 512 * 8
        self.sector_count = 8
        type(self).log.append(self)


def _recorder(name):
    return type(name, (Recorder,), dict(log=[]))


def _finish(ctx, fs, expect_opened=None, opened=None, allowed_writes=(), what=""):
    """obligations of one explored file-system configuration"""
    ctx.res["obligations"] += 1
    bad = list(fs.violations)
    for p, mode in fs.opens:
        if mode not in READ_MODES and (p, mode) not in allowed_writes and f"open({p!r}, {mode!r})" not in bad:
            bad.append(f"open({p!r}, {mode!r})")
    bad = [b for b in bad if not any(b == f"open({p!r}, {m!r})" for p, m in allowed_writes)]
    if expect_opened is not None and opened != expect_opened:
        bad.append(f"parent resolution: opened {opened} but the documented order gives {expect_opened}")
    if bad:
        desc = ctx.scenario.build(None) if ctx.scenario else {}
        desc.update(property=ctx.prop, harness=ctx.harness, why="; ".join(bad)[:400], vars=dict(exists={k: True for k in []}))
        from symx import replay

        desc["fs_exists"] = sorted(k for k, v in fs.exists_vars.items() if _truth(ctx, v)) + sorted(fs.always)
        verdict, detail = replay.run_replay(desc) if desc.get("entry") else ("violation", "no replay for this scenario")
        path = ctx._save(desc, "cex")
        if verdict == "violation":
            ctx.res["violations"].append(dict(what=what + ": " + "; ".join(bad)[:300], replay=path, detail=detail,
                                              vars=dict(exists=desc["fs_exists"])))
            ctx.E.stop = True
        elif verdict == "ok":
            ctx.res["errors"].append(f"{what}: {bad} does not reproduce on the real code ({detail}) replay={path}")
        else:
            ctx.res["errors"].append(f"{what}: replay failed: {detail} replay={path}")
    else:
        ctx.res["discharged"] += 1
        desc = ctx.scenario.build(None) if ctx.scenario else {}
        if desc.get("entry") == "paths" and desc.get("params", {}).get("kind") == "hdd" and ctx.res["witnesses"] < 6:
            # witness: the same file-system configuration in a real temporary directory, real HDD code, open modes recorded
            from symx import replay

            desc.update(property=ctx.prop, harness=ctx.harness, why="witness")
            desc["fs_exists"] = sorted(k for k, v in fs.exists_vars.items() if _truth(ctx, v)) + sorted(fs.always)
            verdict, detail = replay.run_replay(desc)
            if verdict == "ok":
                ctx.res["witnesses"] += 1
                if len(ctx.res["samples"]) < 2:
                    ctx.res["samples"].append(dict(exists=desc["fs_exists"], outcome=detail[:120]))
            elif verdict == "violation":
                path = ctx._save(desc, "witness")
                ctx.res["violations"].append(dict(what=what + ": real run opens a file for writing or changes it", replay=path,
                                                  detail=detail, vars=dict(exists=desc["fs_exists"])))


def _truth(ctx, sb):
    """value of an exists-variable on the current path (decided by the branch taken)"""
    import z3

    m = ctx.E.decide_case(True)
    return bool(m is not None and z3.is_true(m.eval(sb.bv, model_completion=True)))


# ---- scenarios ----------------------------------------------------------------------------------------------------

def vhdx_parent_task(prop, cfg, tier, seed):
    m = loader.load(VHDX_SRC)
    ctx = Ctx(prop, "paths.vhdx_open_parent", cfg, tier, seed)
    locator = cfg["locator"]

    def body(E, ctx):
        fs = FS(E)
        R = _recorder("VHDX")
        base = SymPath(fs, "/evidence/vm/disks")

        def VHDXStub(p):
            if not p.exists():
                raise FileNotFoundError(str(p))
            p.open("rb")
            return R(p)

        m.VHDX = VHDXStub
        m.Path = path_class(fs)
        ctx.scenario = Scenario({}, lambda mo: dict(entry="paths", params=dict(kind="vhdx_open_parent", locator=locator),
                                                    files={}, call=["paths"]), lambda mo, d: dict(paths=True))
        rel = base.joinpath(locator["relative_path"].replace("\\", "/"))
        ab = base.joinpath("/" + locator["absolute_win32_path"].replace("\\", "/"))
        try:
            m.open_parent(base, locator)
            opened = str(R.log[-1].args[0]) if R.log else None
            raised = False
        except OSError:
            opened, raised = None, True
        # documented order: the relative path if it exists, else the absolute path; neither -> error
        if fs.exists(rel._p):
            exp = str(rel)
        elif fs.exists(ab._p):
            exp = str(ab)
        else:
            exp = None
        _finish(ctx, fs, exp, opened, what="vhdx.open_parent")

    return ctx.run(body, cov_files=[VHDX_SRC])


DESC = """# Disk DescriptorFile
version=1
CID=fffffffe
parentCID={pcid}
createType="{ctype}"
{hint}
# Extent description
{extents}

# The Disk Data Base
#DDB
ddb.adapterType = "lsilogic"
"""


def vmdk_descriptor_task(prop, cfg, tier, seed):
    """VMDK(path) on a descriptor: parentCID handling, parent search order, extent opens."""
    m = loader.load(VMDK_SRC)
    ctx = Ctx(prop, "paths.vmdk_descriptor", cfg, tier, seed)
    hint = cfg.get("hint")
    extents = cfg["extents"]

    def body(E, ctx):
        child = "/evidence/vm/child/disk.vmdk"
        text = DESC.format(pcid="ffffffff" if hint is None else "1234abcd", ctype="vmfsSparse",
                           hint="" if hint is None else f'parentFileNameHint="{hint}"', extents="\n".join(extents))
        fs = FS(E, contents={child: text.encode()}, always=[child])
        par_text = DESC.format(pcid="ffffffff", ctype="vmfs", hint="", extents='RW 8 VMFS "base-flat.vmdk"').encode()
        SD, RD = _recorder("SparseDisk"), _recorder("RawDisk")
        m.SparseDisk, m.RawDisk = SD, RD
        m.Path = path_class(fs)
        cands = []
        if hint is not None:
            h = hint.replace("\\", "/")
            hp, _, fn = h.rpartition("/")
            c1 = SymPath(fs, "/evidence/vm/child").joinpath(fn)
            c2 = SymPath(fs, "/evidence/vm").joinpath(hp.rpartition("/")[2]).joinpath(fn)
            cands = [str(c1), str(c2)]
            for c in cands:
                fs.contents[c] = par_text
                fs.always.add(str(PurePosixPath(c).with_name("base-flat.vmdk")))
        for e in extents:
            fs.always.add("/evidence/vm/child/" + e.split('"')[1])
        ctx.scenario = Scenario({}, lambda mo: dict(entry="paths", params=dict(kind="vmdk_descriptor", text=text, hint=hint,
                                                                                 cands=cands), files={}, call=["paths"]),
                                lambda mo, d: dict(paths=True))
        try:
            obj = m.VMDK(m.Path(child))
            raised = False
        except OSError:
            obj, raised = None, True
        opened_parent = None
        if obj is not None and obj.parent is not None:
            opened_parent = [p for p, _ in fs.opens if p in cands]
            opened_parent = opened_parent[0] if opened_parent else "?"
        exp = None
        if hint is not None:
            exp = cands[0] if fs.exists(PurePosixPath(cands[0])) else (cands[1] if fs.exists(PurePosixPath(cands[1])) else None)
        if hint is not None and exp is None and not raised:
            fs.violations.append("parent missing but the child was opened alone")
        if obj is not None:
            # every data-bearing extent has a reader wired to the parent, in order
            want = [e for e in extents if e.split()[2] in ("SPARSE", "VMFSSPARSE", "SESPARSE", "VMFS", "FLAT")]
            mine = [d for d in obj.disks]
            if len(mine) != len(want):
                fs.violations.append(f"{len(want)} data-bearing extents but {len(mine)} readers")
            for d in mine:
                if isinstance(d, SD) and d.parent is not obj.parent:
                    fs.violations.append("sparse extent not wired to the parent")
        _finish(ctx, fs, exp, opened_parent, what="VMDK(descriptor)")

    return ctx.run(body, cov_files=[VMDK_SRC])


HDD_XML = """<?xml version='1.0' encoding='UTF-8'?>
<Parallels_disk_image Version="1.0">
 <StorageData><Storage><Start>0</Start><End>2048</End><Blocksize>2048</Blocksize>
  <Image><GUID>{{11111111-1111-1111-1111-111111111111}}</GUID><Type>{t0}</Type><File>{f0}</File></Image>
  <Image><GUID>{{22222222-2222-2222-2222-222222222222}}</GUID><Type>Compressed</Type><File>{f1}</File></Image>
 </Storage></StorageData>
 <Snapshots><TopGUID>{{22222222-2222-2222-2222-222222222222}}</TopGUID>
  <Shot><GUID>{{11111111-1111-1111-1111-111111111111}}</GUID><ParentGUID>{{00000000-0000-0000-0000-000000000000}}</ParentGUID></Shot>
  <Shot><GUID>{{22222222-2222-2222-2222-222222222222}}</GUID><ParentGUID>{{11111111-1111-1111-1111-111111111111}}</ParentGUID></Shot>
 </Snapshots>
</Parallels_disk_image>
"""


def hdd_task(prop, cfg, tier, seed):
    """HDD(path), HDD.open(): image search order for absolute/relative names, snapshot chain wiring, open modes."""
    m = loader.load(HDD_SRC)
    ctx = Ctx(prop, "paths.hdd", cfg, tier, seed)
    f0, f1, t0 = cfg["base_file"], cfg["top_file"], cfg.get("base_type", "Compressed")

    def body(E, ctx):
        root = "/evidence/copy.pvm/copy.hdd"
        xml = HDD_XML.format(t0=t0, f0=f0, f1=f1)
        fs = FS(E, contents={root + "/DiskDescriptor.xml": xml.encode()}, always=[root, root + "/DiskDescriptor.xml"])
        H = _recorder("HDS")
        m.HDS = H
        m.Path = path_class(fs)

        class SS:
            def __init__(self, streams):
                self.streams = streams

        m.StorageStream = SS
        ctx.scenario = Scenario({}, lambda mo: dict(entry="paths", params=dict(kind="hdd", xml=xml, files=[f0, f1]),
                                                    files={}, call=["paths"]), lambda mo, d: dict(paths=True))

        def candidates(f):
            p = PurePosixPath(f)
            if not p.is_absolute():
                return [str(PurePosixPath(root) / p)], False
            r = PurePosixPath(root)
            return [str(p), str(r / p.name), str(r.parent / p.parent.name / p.name),
                    str(r.parent.parent / p.parent.parent.name / p.parent.name / p.name)], True

        try:
            hdd = m.HDD(m.Path(root))
            st = hdd.open()
            raised = False
        except (OSError, KeyError, ValueError):
            st, raised = None, True
        exp_all = []
        for f in (f0, f1):
            cands, absolute = candidates(f)
            hit = next((c for c in cands if fs.exists(PurePosixPath(c))), None)
            exp_all.append(hit)
        opened = [p for p, _ in fs.opens if not p.endswith("DiskDescriptor.xml")]
        if None in exp_all:
            if not raised:
                fs.violations.append("an image of the chain is missing but a stream was returned")
            exp, got = None, None
        else:
            exp, got = exp_all, opened
            if st is not None:
                top = st.streams[0][1]
                if not (isinstance(top, H) and (isinstance(top.kw.get("parent"), H) or t0 == "Plain")):
                    fs.violations.append("snapshot chain not wired base-first")
        _finish(ctx, fs, exp, got, what="HDD.open")

    return ctx.run(body, cov_files=[HDD_SRC])


def envelope_tool_task(prop, cfg, tier, seed):
    """tools/envelope.py main(): the only write is the --output file."""
    import sys

    m = loader.load(TOOL_SRC)
    ctx = Ctx(prop, "paths.envelope_tool", cfg, tier, seed)

    def body(E, ctx):
        fs = FS(E, contents={"/evidence/local.tgz.ve": b"x", "/evidence/encryption.info": b"mode = \"NONE\"\n"})
        m.Path = path_class(fs)

        class Env:
            def __init__(self, fh, *a, **kw):
                pass

            def decrypt(self, key, aad=None):
                return b"plaintext"

        class KS:
            key = b"k"

            @classmethod
            def from_text(cls, text):
                return cls()

        m.Envelope, m.KeyStore = Env, KS
        out_written = []

        class Out(SymPath):
            pass

        ctx.scenario = Scenario({}, lambda mo: dict(entry="", params={}, files={}, call=["paths"]), lambda mo, d: {})
        argv = sys.argv
        sys.argv = ["envelope-decrypt", "/evidence/local.tgz.ve", "-ks", "/evidence/encryption.info", "-o", "/out/plain.tgz"]
        real_open = SymPath.open

        def open_(self, mode="r", *a, **kw):
            if str(self) == "/out/plain.tgz" and mode == "wb":
                self._fs.opens.append((str(self), mode))
                out_written.append(1)
                return io.BytesIO()
            return real_open(self, mode, *a, **kw)

        SymPath.open = open_
        try:
            try:
                m.main()
            except SystemExit:
                pass
        finally:
            sys.argv = argv
            SymPath.open = real_open
        _finish(ctx, fs, None, None, allowed_writes=[("/out/plain.tgz", "wb")], what="envelope tool")

    return ctx.run(body, cov_files=[TOOL_SRC])

"""C15 - Encrypted VMX: unlock round-trips and is authenticated."""
from __future__ import annotations

from harness import vmxcrypto

META = dict(
    level="model_checking",
    bounds="3 ciphers x 3 MACs x 2 KDFs enumerated (quick: a covering subset), one passphrase pair; configuration content length "
           "symbolic 0..65536 (all padding residues, incl. multiples of 16); scenarios: honest, wrong passphrase, one byte at a "
           "symbolic position altered in the wrapped-key ciphertext, its MAC, the encrypted configuration, its MAC",
    outside=["altered ciphertext of an *empty* configuration (a forged padding block passes with probability 2^-8 by "
             "construction of the format)", "the cryptography itself (idealised: perfect cipher / MAC / KDF)", "the key-safe grammar on arbitrary text "
             "(_split_list, URL quoting: a concrete skeleton per configuration is parsed by the real code)", "_parse_dictionary "
             "of the decrypted text (an opaque token; C18)", "several pairs per key safe"],
    assumptions=["AES-CBC decryption of Enc(K, IV, X) under (K, IV) yields X, anything else unconstrained bytes; a MAC/KDF "
                 "output equals another byte string only if it is the same term; digest lengths sha1 = 20, sha256 = 32"],
    must_reach=[(vmxcrypto.SRC, r"raise ValueError\(\"Invalid HMAC"), (vmxcrypto.SRC, r"self\.attr\.update")],
)
SCEN = ["honest", "wrong_pass", "tamper_data_ct", "tamper_data_tag", "tamper_pair_ct", "tamper_pair_tag"]


def tasks(tier):
    ciphers, macs, kdfs = ["AES-128", "AES-192", "AES-256"], ["HMAC-SHA-1", "HMAC-SHA-1-128", "HMAC-SHA-256"], \
        ["PBKDF2-HMAC-SHA-1", "PBKDF2-HMAC-SHA-256"]
    out = []
    if tier == "quick":
        combos = [(ciphers[i % 3], macs[i % 3], kdfs[i % 2]) for i in range(3)] + [("AES-256", "HMAC-SHA-1", kdfs[1])]
    else:
        combos = [(c, m_, k) for c in ciphers for m_ in macs for k in kdfs]
    for c, m_, k in combos:
        for s in SCEN:
            out.append(("unlock", dict(cipher=c, mac=m_, kdf=k, scenario=s)))
    return out


def run(hname, cfg, tier, seed):
    return vmxcrypto.unlock_task("C15", cfg, tier, seed)

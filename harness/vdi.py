"""Symbolic execution of the real VDI reader (vdi.py: VDI.__init__, VDI._read)."""
from __future__ import annotations

import random

import z3

from harness.common import Ctx, byte_obligation, fault_finish, fault_mode, io_cases, mi, read_scenario
from oracles.mem import SymMem, SymOpaque
from oracles import vdi as spec
from symx import core, files, layouts, loader
from symx.core import bvval as V
from symx.files import SymFile
from symx.sbytes import Seg, SymBytes

SRC = loader.repo_path("dissect/hypervisor/disk/vdi.py")


class ArrayStub:
    """array.array('i'): frombytes turns file bytes into a table of native (little-endian) signed 32-bit words."""

    class array:
        def __init__(self, typecode):
            if typecode != "i":
                raise core.Unsupported(f"array typecode {typecode}")
            self.t = None

        def frombytes(self, buf):
            b = SymBytes.lift(buf)
            n = b.length()
            if isinstance(n, int) and n == 0:
                self.t = files.SymTable("img", 0, 0, 4, "le", True)
                return
            if n % 4 != 0:
                raise ValueError("bytes length not a multiple of item size")
            self.t = files.read_table(b, n // 4, 4, "le", True)

        def __getitem__(self, i):
            return self.t[i]

        def __len__(self):
            return len(self.t)


class ParentStub:
    def __init__(self):
        self.calls = []

    def __bool__(self):
        return True

    def _read(self, offset, length):
        self.calls.append((offset, length))
        return SymBytes([Seg("opaque", "parent", offset, length)])


def load():
    m = loader.load(SRC)
    m.c_vdi = layouts.CStructProxy(m.c_vdi)
    m.array = ArrayStub
    return m


def read_task(prop, cfg, tier, seed):
    """cfg: block_size, n_blocks, has_parent, tail"""
    bs = cfg["block_size"]
    N = cfg.get("n_blocks", 1)
    has_parent = bool(cfg.get("has_parent"))
    core.set_width(cfg.get("W", 72))
    m = load()
    cfg = dict(cfg)
    cfg.setdefault("pins", {})
    ctx = Ctx(prop, "vdi.read", cfg, tier, seed, engine_kw=dict(max_decisions=cfg.get("max_decisions", 400)))
    rng = random.Random(seed)
    fault = bool(cfg.get("fault"))
    if fault:
        fault_mode(ctx)
    touched = N + 1
    fsize = 1 << 62

    def body(E, ctx):
        E.pins = {("HeaderDescriptor", "BlockSize"): bs, ("HeaderDescriptor", "Signature"): spec.SIGNATURE}
        fh = SymFile("img", size=fsize)
        parent = ParentStub() if has_parent else None
        hdr_blocks_off = files.word_at("img", 340, 4, "le")
        hdr_data_off = files.word_at("img", 344, 4, "le")
        disk_size = files.word_at("img", 368, 8, "le")
        nblocks = files.word_at("img", 384, 4, "le")
        extra = files.word_at("img", 380, 4, "le")
        if not fault:
            E.assume(extra == 0)
        E.assume(disk_size >= 512)
        E.assume(disk_size <= 1 << 50)
        E.assume(disk_size % 512 == 0)
        if not fault:
            E.assume(nblocks * bs >= disk_size)  # the block map covers the disk
        E.assume(hdr_blocks_off >= 512)
        offset = E.var("offset", 0, 1 << 50)
        length = E.var("length", 512, N * bs)
        E.assume(offset % 512 == 0)
        E.assume(length % 512 == 0)
        E.assume(offset < disk_size)
        if not cfg.get("tail"):
            E.assume(offset + length <= disk_size)
        b0 = offset // bs
        for k in range(touched):
            e = files.word_at("img", hdr_blocks_off + 4 * (b0 + k), 4, "le", signed=True)
            if not fault:
                E.assume(e >= -2)
        j = E.var("j", 0, 1 << 50)
        vars_ = dict(offset=offset, length=length, disk_size=disk_size, blocks_off=hdr_blocks_off, data_off=hdr_data_off,
                     nblocks=nblocks, j=j)
        explen = core.sym_min(length, disk_size - offset) if cfg.get("tail") else length
        mem = SymMem("img")
        par = SymOpaque("parent") if has_parent else None

        def spec_at(model, g, mems, ops):
            return spec.guest_byte(g, mi(model, hdr_blocks_off), mi(model, hdr_data_off), bs, mems["img"], ops.get("parent"))

        ctx.scenario = read_scenario(
            ctx, E, vars_, entry="vdi", params=lambda mo: dict(has_parent=has_parent),
            call=lambda mo: ["_read", mi(mo, offset), mi(mo, length)], total=lambda mo: mi(mo, explen),
            g0=lambda mo: mi(mo, offset), spec_at=spec_at, unit=bs, rng=rng, maxlen=(lambda mo: mi(mo, length)) if cfg.get("tail") else None, j=j,
            opaque=("parent",) if has_parent else (),
            prefer=[nblocks <= 1 << 20] + ([length <= 16 << 20] if bs <= (4 << 20) else []))
        ctx.scenario.wide = [offset >= 1 << 39]
        ctx.scenario.small = [nblocks]
        obj = m.VDI(fh, parent)
        res = obj._read(offset, length)
        if fault:
            return fault_finish(ctx, E, res, length, bs)
        sv = spec.guest_byte(offset + j, hdr_blocks_off, hdr_data_off, bs, mem, par)
        bad = byte_obligation(res, j, explen, sv, extra=[obj.size != disk_size], maxlen=length if cfg.get("tail") else None)
        if cfg.get("io"):
            bad += io_cases(fh.reads, 512 + 4 * nblocks + length, 2 + touched)
        if ctx.obligation(bad, "read differs from the guest-visible content"):
            ctx.witness()

    return ctx.run(body, cov_files=[SRC])

"""C15: real VMX.unlock_with_phrase / KeySafe / Pair / Phrase / _decrypt_hmac over an idealised (Dolev-Yao) crypto stub set.

AES-CBC decryption of Enc(K, IV, X) under (K, IV) yields X, anything else yields unconstrained bytes; hmac.digest(K, m, alg)
is a token of the algorithm's true digest length that equals another byte string only if that is the same token; PBKDF2 is a
token of the requested length. The solver contributes the slice arithmetic against the symbolic content length (IV, MAC and
padding boundaries), the digest-length table and the order of verification and update."""
from __future__ import annotations

import base64 as real_b64
from urllib.parse import quote

from harness.common import Ctx, Scenario, mi
from symx import core, loader
from symx.sbytes import Seg, SymBytes
from symx.sstr import SymStr

SRC = loader.repo_path("dissect/hypervisor/descriptor/vmx.py")
DIGEST_LEN = {"sha1": 20, "sha256": 32}
# what the format stores per MAC name: (hash, stored tag length)
MACS = {"HMAC-SHA-1": ("sha1", 20), "HMAC-SHA-1-128": ("sha1", 16), "HMAC-SHA-256": ("sha256", 32)}
KEYLEN = {"AES-128": 16, "AES-192": 24, "AES-256": 32}


class Tok:
    """an opaque value with structural identity (used as segment source)"""

    def __init__(self, *parts):
        self.parts = parts

    def __eq__(self, o):
        if not isinstance(o, Tok) or len(o.parts) != len(self.parts):
            return False
        conds = []
        for a, b in zip(self.parts, o.parts):
            if isinstance(a, SymBytes) or isinstance(b, SymBytes):
                e = SymBytes.lift(a).structurally_equal(b)
            else:
                e = a == b
            if e is False:
                return False
            if e is not True:
                conds.append(e)
        return core.sym_and(*conds) if conds else True

    def __hash__(self):
        return 0

    def __repr__(self):
        return f"Tok{self.parts}"


def tok_bytes(tok, n):
    return SymBytes([Seg("opaque", tok, 0, n)])


def unlock_task(prop, cfg, tier, seed):
    """cfg: cipher, mac, kdf, scenario: 'honest'|'wrong_pass'|'tamper_data_ct'|'tamper_data_tag'|'tamper_pair_ct'|'tamper_pair_tag'"""
    cipher, mac, kdf, scen = cfg["cipher"], cfg["mac"], cfg["kdf"], cfg["scenario"]
    core.set_width(72)
    m = loader.load(SRC)
    ctx = Ctx(prop, "vmx.unlock", cfg, tier, seed, engine_kw=dict(max_decisions=300))
    hname, taglen = MACS[mac]
    klen = KEYLEN[cipher]
    GOOD, BAD = "correct horse", "wrong horse"

    def body(E, ctx):
        E.structural_bytes_eq = True
        Tlen = E.var("content_length", 0, 1 << 16)
        if scen.startswith("tamper"):
            # an empty configuration is outside the claim: its single padding block can be forged with probability 2^-8
            # (the MAC covers the plaintext after padding removal), which no implementation of this format can avoid
            E.assume(Tlen >= 1)
        pad = 16 - Tlen % 16  # PKCS#7
        k_at = E.var("tamper_at", 0, 1 << 17)
        vars_ = dict(content_length=Tlen, tamper_at=k_at)
        salt = b"0123456789abcdef"
        rounds = 10000
        kdf_hash = m.PASS2KEY_MAP[kdf] if kdf in m.PASS2KEY_MAP else None
        K1 = Tok("kdf", kdf_hash, GOOD.encode(), salt, rounds, klen)   # wrapping key from the passphrase
        K2raw = bytes(range(klen))                                          # the data key stored in the pair
        pair_plain = f"type=key:cipher={cipher}:key={quote(real_b64.b64encode(K2raw).decode())}".encode()
        ppad = 16 - len(pair_plain) % 16
        pair_padded = pair_plain + bytes([ppad]) * ppad
        IV1, IV2 = Tok("iv", 1), Tok("iv", 2)
        C1 = Tok("enc", K1, IV1, "pair")      # Enc(K1, IV1, pair_padded)
        data_plain = tok_bytes(Tok("config"), Tlen)
        data_padded = SymBytes(data_plain.segs + [Seg("fill", pad, 0, pad)])
        C2 = Tok("enc", K2raw, IV2, "data")   # Enc(K2, IV2, data_padded)
        T1 = Tok("mac", hname, K1, SymBytes.from_bytes(pair_plain))
        T2 = Tok("mac", hname, K2raw, data_plain)

        def tampered(tokbytes_src, n):
            """n bytes of the honest token with the byte at position tamper_at replaced"""
            E.assume(k_at < n)
            return SymBytes([Seg("opaque", tokbytes_src, 0, k_at), Seg("opaque", Tok("tamper"), 0, 1),
                             Seg("opaque", tokbytes_src, k_at + 1, n - k_at - 1)])

        ct1 = tok_bytes(C1, len(pair_padded))
        tag1 = tok_bytes(T1, taglen)
        ct2 = tok_bytes(C2, Tlen + pad)
        tag2 = tok_bytes(T2, taglen)
        if scen == "tamper_pair_ct":
            ct1 = tampered(C1, len(pair_padded))
        elif scen == "tamper_pair_tag":
            tag1 = tampered(T1, taglen)
        elif scen == "tamper_data_ct":
            ct2 = tampered(C2, Tlen + pad)
        elif scen == "tamper_data_tag":
            tag2 = tampered(T2, taglen)
        pair_blob = SymBytes(tok_bytes(IV1, 16).segs + ct1.segs + tag1.segs)
        data_blob = SymBytes(tok_bytes(IV2, 16).segs + ct2.segs + tag2.segs)
        blobs = {"UEFJUkJMT0I=": pair_blob, "REFUQUJMT0I=": data_blob}

        class B64:
            @staticmethod
            def b64decode(x, *a, **kw):
                if isinstance(x, str) and x in blobs:
                    return blobs[x]
                return real_b64.b64decode(x, *a, **kw)

        class Hashlib:
            @staticmethod
            def pbkdf2_hmac(h, pw, s_, r, n):
                return Tok("kdf", h, pw, s_, r, n)

        class Cipher:
            def __init__(self, key, iv):
                self.key, self.iv = key, iv

            def decrypt(self, x):
                x = SymBytes.lift(x).coalesced()
                ivs = SymBytes.lift(self.iv).coalesced()
                ivtok = ivs.segs[0].src if len(ivs.segs) == 1 and ivs.segs[0].kind == "opaque" else None
                if len(x.segs) == 1 and x.segs[0].kind == "opaque" and isinstance(x.segs[0].src, Tok) \
                        and x.segs[0].src.parts[0] == "enc":
                    c = x.segs[0].src
                    whole = core.sym_and(x.segs[0].start == 0,
                                         x.segs[0].length == (len(pair_padded) if c.parts[3] == "pair" else Tlen + pad))
                    keyok = (c.parts[1] == self.key) if not isinstance(self.key, bytes) or isinstance(c.parts[1], bytes) else False
                    ivok = ivtok is not None and (c.parts[2] == ivtok) is True
                    if ivok and bool(keyok) and bool(whole):
                        return pair_padded if c.parts[3] == "pair" else data_padded
                return tok_bytes(Tok("garbage", id(x)), x.length())

        class Hmac:
            @staticmethod
            def digest(key, msg, alg):
                return tok_bytes(Tok("mac", alg, key, SymBytes.lift(msg)), DIGEST_LEN[alg])

        m.base64 = B64
        m.hashlib = Hashlib
        m.hmac = Hmac
        m._create_cipher = lambda key, iv: Cipher(key, iv)
        parsed = {}

        def parse_dictionary(s):
            parsed["arg"] = s
            return {"decrypted.config": s}

        real_parse = m._parse_dictionary
        keysafe = ("vmware:key/list/(pair/(phrase/" + quote("id1", safe="") + "/" +
                   quote(f"pass2key={quote(kdf, safe='')}:cipher={quote(cipher, safe='')}:rounds={rounds}:salt="
                         f"{quote(real_b64.b64encode(salt).decode(), safe='')}", safe="") + "," + quote(mac, safe="") + "," +
                   quote("UEFJUkJMT0I=", safe="") + "))")
        attr = {"encryption.keysafe": keysafe, "encryption.data": "REFUQUJMT0I=", "displayname": "vm"}
        before = dict(attr)
        vmx = m.VMX(attr)
        m._parse_dictionary = parse_dictionary

        def build(model):
            return dict(entry="vmx_unlock", params=dict(cipher=cipher, mac=mac, kdf=kdf, scenario=scen,
                                                        content_length=mi(model, Tlen), tamper_at=mi(model, k_at)),
                        files={}, call=["unlock"])

        ctx.scenario = Scenario(vars_, build, lambda mo, d: dict(unlock=("ok" if scen == "honest" else "raises")))
        try:
            vmx.unlock_with_phrase(GOOD if scen != "wrong_pass" else BAD)
            raised = None
        except (ValueError, KeyError) as ex:
            raised = ex
        finally:
            m._parse_dictionary = real_parse
        ctx.res["obligations"] += 1
        bad = []
        if scen == "honest":
            if raised is not None:
                bad.append(f"honest unlock raised {type(raised).__name__}: {raised}")
            else:
                got = vmx.attr.get("decrypted.config")
                ok = isinstance(got, SymStr) and SymBytes.lift(got.data).structurally_equal(data_plain)
                if ok is not True and (ok is False or ctx.E.decide_case(core.sym_not(ok)) is not None):
                    bad.append("unlocked configuration is not the original content")
                if any(vmx.attr.get(k) != v for k, v in before.items()):
                    bad.append("existing entries changed")
        else:
            if raised is None:
                bad.append("altered input or wrong passphrase was accepted")
            elif vmx.attr != before:
                bad.append("configuration changed although unlocking failed")
        if not bad:
            ctx.res["discharged"] += 1
            if ctx.res["witnesses"] < 2:
                # validate the idealisation: the same scenario with real PBKDF2 / AES-CBC / HMAC behaves the same way
                mw = ctx.E.decide_case(True)
                if mw is not None:
                    from symx import replay as _rp

                    desc = ctx._describe(mw, "witness")
                    verdict, detail = _rp.run_replay(desc)
                    if verdict == "ok":
                        ctx.res["witnesses"] += 1
                        if len(ctx.res["samples"]) < 2:
                            ctx.res["samples"].append(dict(cfg=desc["cfg"], vars=desc["vars"], outcome=detail[:160]))
                    elif verdict == "violation":
                        path = ctx._save(desc, "witness")
                        ctx.res["violations"].append(dict(what="real cryptography disagrees with the idealised run",
                                                          replay=path, detail=detail, vars=desc.get("vars")))
                    else:
                        ctx.res["witness_failures"].append(detail)
            return
        m_ = ctx.E.decide_case(True)
        desc = ctx._describe(m_, "; ".join(bad))
        from symx import replay

        verdict, detail = replay.run_replay(desc)
        path = ctx._save(desc, "cex")
        if verdict == "violation":
            ctx.res["violations"].append(dict(what="; ".join(bad), replay=path, detail=detail, vars=desc.get("vars")))
            ctx.E.stop = True
        elif verdict == "ok":
            ctx.res["errors"].append(f"{bad}: does not reproduce with real cryptography ({detail}) replay={path}")
        else:
            ctx.res["errors"].append(f"{bad}: replay failed: {detail} replay={path}")

    return ctx.run(body, cov_files=[SRC])

"""C20: real VisorTarInfo.frombuf/_proc_member + the stdlib's TarFile.next/_proc_member/_block over symbolic headers.
The stdlib's ustar field decoding (TarInfo.frombuf) is replaced by a stand-in with a symbolic size and an enumerated type."""
from __future__ import annotations

import tarfile as real_tarfile

from harness.common import Ctx, Scenario, mi
from oracles.mem import SymMem, ite
from symx import core, files, loader, stubs
from symx.files import SymFile

SRC = loader.repo_path("dissect/hypervisor/util/vmtar.py")
VISOR = b"visor  "


def members_task(prop, cfg, tier, seed):
    """cfg: types: list of 'reg'|'dir' (one per member)"""
    types_ = cfg["types"]
    K = len(types_)
    core.set_width(72)
    m = loader.load(SRC)
    m.struct = stubs.StructModule
    ctx = Ctx(prop, "vmtar.members", cfg, tier, seed, engine_kw=dict(max_decisions=400))

    def body(E, ctx):
        sizes = [E.var(f"size{i}", 0, 1 << 33) if types_[i] == "reg" else 0 for i in range(K)]
        state = dict(n=0)
        fh = SymFile("tar")
        mem = SymMem("tar")
        vars_ = {f"size{i}": s for i, s in enumerate(sizes)}

        def std_frombuf(cls, buf, encoding, errors):
            i = state["n"]
            if i >= K:
                raise real_tarfile.EOFHeaderError("end of file header")
            obj = cls()
            obj.name = f"m{i}"
            obj.size = sizes[i]
            obj.type = real_tarfile.REGTYPE if types_[i] == "reg" else real_tarfile.DIRTYPE
            state["n"] += 1
            return obj

        def build(model):
            from symx import replay

            pat = replay.patches_from_apps(model, E.apps).get("tar", {})
            content = {}
            for addr, data in pat.items():
                for k, byte in enumerate(data):
                    content[addr + k] = byte
            hp, hdrs = 0, []
            for i in range(K):
                a = hp
                blk = bytes(content.get(a + k, 0) for k in range(512))
                vis = blk[257:264] == VISOR
                od = int.from_bytes(blk[496:500], "little")
                sz = mi(model, sizes[i])
                hdrs.append(dict(pos=a, size=sz, type=types_[i], block=blk.hex()))
                hp = a + 512 if (vis and od) else a + 512 + (sz + 511) // 512 * 512
            return dict(entry="vmtar", params=dict(headers=hdrs, end=hp), files={}, call=["members"])

        def expect(model, desc):
            out = []
            for h in desc["params"]["headers"]:
                blk = bytes.fromhex(h["block"])
                vis = blk[257:264] == VISOR
                od = int.from_bytes(blk[496:500], "little")
                out.append([h["pos"], od if (vis and od) else h["pos"] + 512, h["size"]])
            return dict(members=out)

        ctx.scenario = Scenario(vars_, build, expect, prefer=[s <= 4096 for s in sizes if not isinstance(s, int)])
        orig = real_tarfile.TarInfo.__dict__["frombuf"]
        real_tarfile.TarInfo.frombuf = classmethod(std_frombuf)
        try:
            tf = real_tarfile.TarFile.__new__(real_tarfile.TarFile)
            tf.fileobj, tf.offset, tf.tarinfo = fh, 0, m.VisorTarInfo
            tf.members, tf._loaded, tf.firstmember = [], False, None
            tf.pax_headers, tf.encoding, tf.errors = {}, "utf-8", "surrogateescape"
            tf.mode, tf.closed, tf.ignore_zeros, tf.debug, tf.errorlevel = "r", False, False, 0, 1
            tf._mode = "r"
            tf.name = None
            got = []
            while True:
                t = tf.next()
                if t is None:
                    break
                got.append(t)
        finally:
            real_tarfile.TarInfo.frombuf = orig
        bad = [len(got) != K]
        hp = 0
        for i, t in enumerate(got[:K]):
            flag = core.sym_and(*[mem.byte(hp + 257 + k) == c for k, c in enumerate(VISOR)])
            od = mem.word(hp + 496, 4, "le")
            vis = core.sym_and(flag, od != 0)
            bad.append(t.offset != hp)
            bad.append(t.offset_data != ite(vis, od, hp + 512))
            bad.append(t.size != sizes[i])
            hp = ite(vis, hp + 512, hp + 512 + ((sizes[i] + 511) // 512) * 512)
        if ctx.obligation(bad, "member placement differs from the vmtar layout"):
            ctx.witness()

    return ctx.run(body, cov_files=[SRC])

"""C07 - Layer precedence in differencing, backing and snapshot chains."""
from __future__ import annotations

from harness import c09, hds, paths, qcow2, vdi, vhdx, vmdk

MB = 1 << 20

META = dict(
    level="model_checking",
    bounds="one inductive step over chain depth per reader: the parent is an arbitrary byte array; VHDX differencing "
           "(NOT_PRESENT / PARTIALLY_PRESENT incl. sector-bitmap lookup; request <= 3 sectors quick, <= 4 thorough (3 for 32 MiB/512); "
           "block 1 MiB/4096 and 32 MiB/512), _iter_partial_runs as a unit (bitmap of 2 bytes, start bit enumerated, "
           "<= 8 bits quick / 12 thorough), VMDK sparse delta, HDS with parent, VDI with parent, QCOW2 backing file of "
           "symbolic length; parent resolution (VHDX/VMDK/HDD) over a symbolic file system",
    outside=["Parallels DiskDescriptor.xml parsing (expat)", "the VMDK text descriptor's own parsing", "chains deeper "
             "than one step are covered by the written induction over depth, each step being solver-decided"],
    assumptions=["the parent presents some byte array of its own (inductive hypothesis); stubs as in C01-C06",
                 "well-formed differencing VHDX: payload states in {0,1,2,3,6,7}"],
    must_reach=[(vhdx.SRC, r"self\.parent\.read_sectors\("), (vhdx.SRC, r"yield \(current_type")],
)
SPLIT_DEPTH = 10


def tasks(tier):
    out = []
    q = tier == "quick"
    out.append(("vhdx", dict(block_size=MB, sector_size=4096, max_count=3 if q else 4, has_parent=True)))
    if not q:
        out.append(("vhdx", dict(block_size=32 * MB, sector_size=512, max_count=3, has_parent=True)))
    for s in ((0, 1, 5) if q else range(8)):
        out.append(("partial_runs", dict(nbytes=2, start_idx=s, max_len=8 if q else 12)))
    out.append(("vmdk", dict(kind="kdmv", grain_size=128, ngte=512, n_grains=1 if q else 2, has_parent=True)))
    # a delta extent that is not the first of a multi-extent disk: the parent is addressed by absolute sectors
    out.append(("vmdk", dict(kind="kdmv", grain_size=128, ngte=512, n_grains=1, has_parent=True, via="disk",
                             sector_offset=True)))
    out.append(("hds", dict(version=2, tracks=256, n_clusters=2, has_parent=True)))
    out.append(("vdi", dict(block_size=1 << 20, n_blocks=2, has_parent=True)))
    out.append(("qcow2", dict(cluster_bits=16, n_clusters=1, backing="file")))
    # parent resolution over a symbolic file system (shared with C09)
    for h, cfg in c09.tasks(tier):
        if h != "envelope_tool":
            out.append(("paths:" + h, cfg))
    return out


def run(hname, cfg, tier, seed):
    if hname.startswith("paths:"):
        return getattr(paths, hname[6:] + "_task")("C07", cfg, tier, seed)
    if hname == "vhdx":
        return vhdx.read_task("C07", cfg, tier, seed)
    if hname == "partial_runs":
        return vhdx.partial_runs_task("C07", cfg, tier, seed)
    if hname == "vmdk":
        return vmdk.read_task("C07", cfg, tier, seed)
    if hname == "hds":
        return hds.read_task("C07", cfg, tier, seed)
    if hname == "vdi":
        return vdi.read_task("C07", cfg, tier, seed)
    if hname == "qcow2":
        return qcow2.read_task("C07", cfg, tier, seed)
    raise ValueError(hname)

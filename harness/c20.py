"""C20 - vmtar: every member extracts to the bytes stored at its recorded data offset."""
from __future__ import annotations

from harness import vmtar

META = dict(
    level="model_checking",
    bounds="archives of 0..3 members, each regular file or directory (enumerated), member sizes symbolic up to 8 GiB, the visor "
           "flag (7 header bytes) and the three visor fields at 496/504/508 symbolic; real VisorTarInfo.frombuf/_proc_member and "
           "the stdlib's TarFile.next/_proc_member/_proc_builtin/_block (Python 3.12.1)",
    outside=["gzip wrapping", "pax/GNU long-name records", "ExFileObject/BufferedReader (C-level): the check stops at the "
             "(offset_data, size) pair they are built from", "ustar field decoding (stdlib TarInfo.frombuf is a stand-in)"],
    assumptions=["stdlib decodes ustar fields correctly; struct.unpack('<I') decodes a little-endian uint32"],
    must_reach=[(vmtar.SRC, r"tarfile\.offset = tarfile\.fileobj\.tell\(\)|return super\(\)\._proc_member")],
)


def tasks(tier):
    combos = [[], ["reg"], ["reg", "reg"], ["dir", "reg"], ["reg", "dir", "reg"]]
    if tier == "thorough":
        combos.append(["reg", "reg", "reg"])
    return [("members", dict(types=c)) for c in combos]


def run(hname, cfg, tier, seed):
    return vmtar.members_task("C20", cfg, tier, seed)

"""C12 - Foreign or unsupported inputs are refused, not misread."""
from __future__ import annotations

from harness import gates

META = dict(
    level="model_checking",
    bounds="every validated header field is a free full-width symbolic variable (so every single-bit flip of each magic, "
           "every version number and geometry value is covered); QCOW2 x {data-file handle given or not} x {backing: none, "
           "file, ALLOW_NO_BACKING_FILE}; VDI; HDS; VMDK sparse extent header; VHDX container (file identifier, header pair, region table, metadata table and items); Hyper-V file/replay-log/object-table headers "
           "(<= 2 unallocated object-table entries); ESXi envelope header magic/version, required attributes, cipher name, AEAD footer version",
    outside=["VHDX containers beyond the bounded shape (region table 1 with <= 2 entries among BAT/metadata/unknown, <= 4-5 metadata "
             "items of which at most one deviates from the canonical order, block size 1 MiB, sector size 512)", "key store and key safe "
             "gates (text parsing); the envelope's attribute *parsing* (its gate runs on a symbolic attribute dictionary)", "QCOW2 header extensions "
             "(cut: they take no part in any gate)", "Parallels image type (expat)"],
    assumptions=["dissect.cstruct layouts as learned from the real parser each run",
                 "accept predicates as listed in the property; QCOW2: unknown incompatible-feature bits are unsupported "
                 "(qcow2.txt: an implementation must refuse to open an image with an unknown incompatible feature)"],
    must_reach=[],
)


SPLIT_DEPTH = 12


def tasks(tier):
    out = [("qcow2", dict(data_file=False, backing="none")), ("qcow2", dict(data_file=True, backing="file")),
           ("qcow2", dict(data_file=False, backing="allow_no")),
           ("vdi", {}), ("hds", {}), ("vmdk", {}), ("hyperv", {}), ("envelope", {}),
           ("vhdx", dict(n_regions=2, n_items=4, regions_canonical=(tier == "quick")))]
    if tier == "thorough":
        out.append(("vhdx", dict(n_regions=2, n_items=5, parent=True, time_budget=3000)))
    return out


def run(hname, cfg, tier, seed):
    return getattr(gates, f"{hname}_gate")("C12", cfg, tier, seed)

"""C17 - Hyper-V VMCX/VMRS: decoded tree equals the stored key/value tree."""
from __future__ import annotations

from harness import hypervtree
from harness.gates import HV_SRC

META = dict(
    level="model_checking",
    bounds="a VMCX/VMRS skeleton with both file headers (sequence numbers symbolic), one object table naming 2..3 key tables "
           "and one file object, each key table holding one entry; table index (1..2), table sequence number, entry type "
           "(node or free; the entry of table 0 of an enumerated value type), entry size, parent table index and offset, key "
           "length and all key/value bytes symbolic; values: int64, uint64, bool, inline UTF-16 string, string held in a file "
           "object",
    outside=["doubles and byte arrays as values (C-level struct 'd' / bytes identity only)", "more than one entry per key table, "
             "more than 3 key tables, additional object tables (their termination is C11)", "replay-log application (not "
             "implemented by the reader)", "the format has no public specification: the oracle restates the module's "
             "documented layout independently, so it detects deviations from that, not errors in it"],
    assumptions=["keys of distinct entries are distinct strings (string equality is equality of (codec, file range))",
                 "dissect.cstruct layouts as learned from the real parser each run; struct.unpack decodes standard layouts; "
                 "enum constructors accept exactly their members"],
    must_reach=[(HV_SRC, r"parent\.children\[entry\.key\] = entry|self\.root\[entry\.key\] = entry")],
)
SPLIT_DEPTH = 14


def tasks(tier):
    out = [("tree", dict(ntables=2, value="int")), ("tree", dict(ntables=2, value="pointer")),
           ("tree", dict(ntables=3, value="node"))]
    if tier == "thorough":
        out += [("tree", dict(ntables=2, value=v)) for v in ("uint", "bool", "string")] + [("tree", dict(ntables=3, value="int"))]
    return out


def run(hname, cfg, tier, seed):
    return hypervtree.tree_task("C17", cfg, tier, seed)

"""C12: constructors executed on fully symbolic headers. For every path that returns normally, the header must satisfy the
accept predicate of the property ('returns => supported'); counterexamples are replayed as real header bytes."""
from __future__ import annotations

from harness.common import _where, Ctx, Scenario, files_desc, mi
from symx import core, files, layouts, loader, stubs
from symx.files import MonitorViolation, SymFile


def _gate_ctx(prop, name, cfg, tier, seed):
    ctx = Ctx(prop, name, cfg, tier, seed, engine_kw=dict(max_decisions=cfg.get("max_decisions", 600)))

    def raises_ok(ex):
        # a refusal is what the property asks for; evidence-modifying behaviour is not
        if isinstance(ex, MonitorViolation):
            ctx.res["errors"].append(f"monitor violation while opening: {ex}")
        ctx.res["obligations"] += 1
        ctx.res["discharged"] += 1
        # sample: the real constructor must refuse too
        # a TypeError/AttributeError may be an artefact of a stand-in meeting code it does not model (a proxy handed to a C
        # function): such a "refusal" is only believed when the real constructor refuses a concrete image of the path too
        suspect = isinstance(ex, (TypeError, AttributeError))
        if ctx.scenario is None and suspect:
            ctx.res["inconclusive"].append(f"{type(ex).__name__} before the scenario was set: {ex}")
            return
        if ctx.scenario is not None and (suspect or (ctx.res["witnesses"] < ctx.max_witnesses and ctx.path_no % 3 == 0)):
            from symx import replay as _rp

            try:
                m = ctx._solve_realisable([])
                if m is None:
                    if suspect:
                        ctx.res["inconclusive"].append(f"{type(ex).__name__}: {str(ex)[:100]} @ {_where(ex)}: no replayable image "
                                                       f"to confirm the refusal on the real code")
                    return
                desc = ctx._describe(m, "witness: refusal")
            except (core.Inconclusive, _rp.Unrealisable) as ex2:
                if suspect:
                    ctx.res["inconclusive"].append(f"{type(ex).__name__}: {str(ex)[:100]} @ {_where(ex)}: no replayable image "
                                                   f"to confirm the refusal on the real code ({ex2})")
                return
            desc["expect"] = dict(raises="*")
            verdict, detail = ctx._run(desc, in_process=True)
            if verdict == "ok":
                ctx.res["witnesses"] += 1
            elif verdict == "violation" and suspect:
                ctx.res["inconclusive"].append(f"stand-in artefact: the symbolic run raised {type(ex).__name__} ({str(ex)[:80]}) @ "
                                               f"{_where(ex)} where the real constructor returns; path not decided")
            elif verdict == "violation":
                ctx.res["witness_failures"].append(f"symbolic run refuses ({type(ex).__name__}) but the real constructor accepted: {detail}")
            elif suspect:
                ctx.res["inconclusive"].append(f"{type(ex).__name__} @ {_where(ex)}: refusal could not be replayed: {detail}")

    ctx.raises_ok = raises_ok
    return ctx


def _scenario(ctx, E, vars_, entry, params, names=("img",), sizes=None):
    def build(model):
        pr = params(model) if callable(params) else params
        d = dict(entry=entry, params=pr, files=files_desc(model, E.apps, ctx.seed, names, sizes=sizes), call=["open"])
        if pr.get("backing") == "file":
            d["opaque"] = dict(backing=dict(size=1 << 40, seed=7))
        return d

    def expect(model, desc):
        return dict(returns=True)

    return Scenario(vars_, build, expect)


def _finish(ctx, accept, what):
    """The constructor returned: the header must be acceptable."""
    bad = core.sym_not(accept)
    # a counterexample replays as 'the real constructor must raise' - it does not, which reproduces the violation
    ctx.res["obligations"] += 1
    m = ctx.E.decide_case(bad)
    if m is None:
        ctx.res["discharged"] += 1
        # witness: the real constructor accepts this header too
        if ctx.res["witnesses"] < ctx.max_witnesses:
            from symx import replay as _rp

            try:
                mw = ctx._solve_realisable([])
                desc = ctx._describe(mw, "witness: accepted") if mw is not None else None
            except (core.Inconclusive, _rp.Unrealisable):
                return
            if mw is not None:
                verdict, detail = ctx._run(desc, in_process=True)
                if verdict == "ok":
                    ctx.res["witnesses"] += 1
                    if len(ctx.res["samples"]) < 3:
                        ctx.res["samples"].append(dict(cfg=desc["cfg"], vars=desc["vars"], outcome="accepted by both"))
                elif verdict == "violation":
                    ctx.res["witness_failures"].append(f"symbolic run accepts but the real constructor raised: {detail}")
        return
    from symx import replay

    # the deciding model need not be a realisable image (overlapping views): ask for one that is
    try:
        mr = ctx._solve_realisable([bad])
        desc = ctx._describe(mr if mr is not None else m, what)
    except (core.Inconclusive, replay.Unrealisable) as ex:
        ctx.res["inconclusive"].append(f"{what}: the solver has a counterexample but no replayable image was built ({ex})")
        return
    desc["expect"] = dict(raises="*")

    verdict, detail = replay.run_replay(desc)
    if verdict == "violation":
        path = ctx._save(desc, "cex")
        ctx.res["violations"].append(dict(what=what, replay=path, detail=detail, vars=desc.get("vars")))
        if len(ctx.res["violations"]) >= ctx.max_violations:
            ctx.E.stop = True
    elif verdict == "ok":
        ctx.res["errors"].append(f"{what}: symbolic run accepts an unsupported header but the real constructor refuses it "
                                 f"(encoding problem): {detail}")
    else:
        ctx.res["errors"].append(f"{what}: replay failed: {detail}")


# ---- QCOW2 -------------------------------------------------------------------------------------------------------

def qcow2_gate(prop, cfg, tier, seed):
    """cfg: data_file (bool: a data-file handle is passed), backing ('none'|'file'|'allow_no')"""
    from harness import qcow2 as hq
    from oracles import qcow2 as spec

    core.set_width(72)
    m = hq.load(stubs.ZlibStub(out_len=lambda k, mx: mx))
    m.QCow2._read_extensions = lambda self: None  # cut: header extensions do not take part in any gate (C14)
    ctx = _gate_ctx(prop, "gate.qcow2", cfg, tier, seed)
    give_data = bool(cfg.get("data_file"))
    backing = cfg.get("backing", "none")
    KNOWN = 0b11111  # dirty, corrupt, data file, compression type, extended L2

    def body(E, ctx):
        fh = SymFile("img")
        magic = files.word_at("img", 0, 4, "be")
        version = files.word_at("img", 4, 4, "be")
        bfo = files.word_at("img", 8, 8, "be")
        bfs = files.word_at("img", 16, 4, "be")
        cb = files.word_at("img", 20, 4, "be")
        crypt = files.word_at("img", 32, 4, "be")
        feats = files.word_at("img", 72, 8, "be")
        hlen = files.word_at("img", 100, 4, "be")
        ctype = files.word_at("img", 104, 1, "be")
        E.assume(bfs <= 1023)
        vars_ = dict(magic=magic, version=version, cluster_bits=cb, crypt_method=crypt, incompatible_features=feats,
                     header_length=hlen, compression_type=ctype, backing_file_offset=bfo)
        ctx.scenario = _scenario(ctx, E, vars_, "qcow2", dict(data_file=give_data, backing=backing),
                                 names=("img", "data") if give_data else ("img",))
        kw = {}
        if give_data:
            kw["data_file"] = SymFile("data")
        if backing == "file":
            kw["backing_file"] = SymFile("backing", size=E.var("backing_size", 0, 1 << 60), eof=True)
        elif backing == "allow_no":
            kw["backing_file"] = m.ALLOW_NO_BACKING_FILE
        m.QCow2(fh, **kw)
        v3 = version == 3
        f = core.ite(v3, feats, 0)
        ext = (f & spec.INCOMPAT_EXTL2) != 0
        accept = core.sym_and(
            magic == spec.MAGIC, core.sym_or(version == 2, v3), cb >= 9, cb <= 21,
            core.sym_or(core.sym_not(ext), cb >= 14),  # sub-clusters of at least 512 bytes
            crypt == 0,
            (f & ~KNOWN) == 0 if not isinstance(f, int) else True,  # no unknown incompatible feature
            core.sym_or(core.sym_not(v3), hlen <= 104, ctype == 0),  # zlib (zstd needs a module that is not installed)
            core.sym_or((f & spec.INCOMPAT_DATA_FILE) == 0, give_data),
            core.sym_or(bfo == 0, backing != "none"))
        _finish(ctx, accept, "QCow2() accepted a header outside the supported set")

    return ctx.run(body, cov_files=[hq.SRC])


# ---- VDI / HDS / VMDK sparse header ---------------------------------------------------------------------------------

def vdi_gate(prop, cfg, tier, seed):
    from harness import vdi as hv
    from oracles import vdi as spec

    core.set_width(72)
    m = hv.load()
    ctx = _gate_ctx(prop, "gate.vdi", cfg, tier, seed)

    def body(E, ctx):
        fsize = E.var("fsize", 512, 1 << 50)
        fh = SymFile("img", size=fsize)
        sig = files.word_at("img", 64, 4, "le")
        nblocks = files.word_at("img", 384, 4, "le")
        ctx.scenario = _scenario(ctx, E, dict(signature=sig, nblocks=nblocks), "vdi", dict(has_parent=False),
                                 sizes=dict(img=lambda mo: mi(mo, fsize)))
        ctx.scenario.prefer.append(nblocks <= 1 << 16)
        m.VDI(fh)
        _finish(ctx, sig == spec.SIGNATURE, "VDI() accepted a foreign signature")

    return ctx.run(body, cov_files=[hv.SRC])


def hds_gate(prop, cfg, tier, seed):
    from harness import hds as hh
    from oracles import hds as spec

    core.set_width(96)
    m = hh.load()
    ctx = _gate_ctx(prop, "gate.hds", cfg, tier, seed)

    def body(E, ctx):
        fh = SymFile("img")
        sig = [files.byte_at("img", k) for k in range(16)]
        ctx.scenario = _scenario(ctx, E, {f"sig{k}": b for k, b in enumerate(sig)}, "hds", dict(has_parent=False))
        m.HDS(fh)
        v1 = core.sym_and(*[b == c for b, c in zip(sig, spec.SIG_V1)])
        v2 = core.sym_and(*[b == c for b, c in zip(sig, spec.SIG_V2)])
        _finish(ctx, core.sym_or(v1, v2), "HDS() accepted a foreign signature")

    return ctx.run(body, cov_files=[hh.SRC])


def vmdk_gate(prop, cfg, tier, seed):
    from harness import vmdk as hv

    core.set_width(72)
    m = hv.load(stubs.ZlibStub(out_len=lambda k, mx: mx))
    ctx = _gate_ctx(prop, "gate.vmdk", cfg, tier, seed)

    def body(E, ctx):
        fsize = E.var("fsize", 2048, 1 << 50)
        fh = SymFile("img", size=fsize, eof=True)
        mg = [files.byte_at("img", k) for k in range(4)]
        ctx.scenario = _scenario(ctx, E, {f"magic{k}": b for k, b in enumerate(mg)}, "vmdk_header", {},
                                 sizes=dict(img=lambda mo: mi(mo, fsize)))
        m.SparseExtentHeader(fh)
        ok = [core.sym_and(*[b == c for b, c in zip(mg, magic)]) for magic in (b"KDMV", b"COWD", b"\xbe\xba\xfe\xca")]
        _finish(ctx, core.sym_or(*ok), "SparseExtentHeader() accepted a foreign magic")

    return ctx.run(body, cov_files=[hv.SRC])


# ---- Hyper-V ------------------------------------------------------------------------------------------------------

HV_SRC = loader.repo_path("dissect/hypervisor/descriptor/hyperv.py")


def hyperv_load():
    m = loader.load(HV_SRC)
    m.c_hyperv = layouts.CStructProxy(m.c_hyperv)
    m.struct = stubs.StructModule
    return m


def hyperv_gate(prop, cfg, tier, seed):
    """HyperVFile.__init__ on symbolic headers, replay log and object table (no allocated entries: the tables behind
    object-table entries are the subject of C17; their signature checks are exercised there)."""
    core.set_width(72)
    m = hyperv_load()
    ctx = _gate_ctx(prop, "gate.hyperv", cfg, tier, seed)

    def body(E, ctx):
        fsize = E.var("fsize", 0x4000, 1 << 40)
        fh = SymFile("img", size=fsize, eof=True)
        h = []
        for base in (0, 0x1000):
            h.append(dict(sig=files.word_at("img", base, 4, "le"), seq=files.word_at("img", base + 8, 2, "le"),
                          ver=files.word_at("img", base + 10, 4, "le"), rlo=files.word_at("img", base + 26, 8, "le")))
        for x in h:
            E.assume(x["rlo"] <= 1 << 38)
            # bound: at most 2 replay-log entries (they are read but not interpreted by the constructor)
            E.assume(files.word_at("img", x["rlo"] + 8, 4, "le") <= 2)
        n_log = None
        ot_sig = files.word_at("img", 0x2000, 4, "le")
        ot_n = files.word_at("img", 0x2004, 4, "le")
        E.assume(ot_n <= 2)
        vars_ = dict(sig1=h[0]["sig"], sig2=h[1]["sig"], seq1=h[0]["seq"], seq2=h[1]["seq"], ver1=h[0]["ver"],
                     ver2=h[1]["ver"], object_table_signature=ot_sig, object_table_entries=ot_n)
        ctx.scenario = _scenario(ctx, E, vars_, "hyperv", {}, sizes=dict(img=lambda mo: mi(mo, fsize)))
        # object-table entries are not allocated in this harness
        for k in range(2):
            E.assume(core.sym_or(ot_n <= k, files.byte_at("img", 0x2008 + 18 * k + 17) == 0))
        m.HyperVFile(fh)
        first = h[0]["seq"] > h[1]["seq"]
        act_sig = core.ite(first, h[0]["sig"], h[1]["sig"])
        act_ver = core.ite(first, h[0]["ver"], h[1]["ver"])
        act_rlo = core.ite(first, h[0]["rlo"], h[1]["rlo"])
        rl_sig = files.word_at("img", act_rlo, 4, "le")
        accept = core.sym_and(act_sig == 0x01282014, act_ver == 0x400, rl_sig == 0x01110003, ot_sig == 0x01110001)
        _finish(ctx, accept, "HyperVFile() accepted an unsupported header")

    return ctx.run(body, cov_files=[HV_SRC])


# ---- ESXi envelope ---------------------------------------------------------------------------------------------------

ENV_SRC = loader.repo_path("dissect/hypervisor/util/envelope.py")


class _Buf:
    """io.BytesIO over symbolic bytes: sequential reads"""

    def __init__(self, data):
        from symx.sbytes import SymBytes

        self.data, self.pos = SymBytes.lift(data), 0

    def read(self, n=-1):
        end = self.data.length() if n is None or (isinstance(n, int) and n < 0) else self.pos + n
        r = self.data[self.pos:end]
        self.pos = end
        return r

    def seek(self, off, whence=0):
        self.pos = off if whence == 0 else self.pos + off
        return self.pos

    def tell(self):
        return self.pos


def envelope_gate(prop, cfg, tier, seed):
    """Envelope.__init__: the attribute dictionary is the symbolic input (presence of each required attribute and the
    cipher name are symbolic), header magic/version and the AEAD footer version are free words of the file."""
    import io as real_io
    import types

    core.set_width(72)
    m = loader.load(ENV_SRC)
    m.c_envelope = layouts.CStructProxy(m.c_envelope)
    ctx = _gate_ctx(prop, "gate.envelope", cfg, tier, seed)
    FSIZE = 3 * 4096

    def body(E, ctx):
        fh = SymFile("img", size=FSIZE)
        m.io = types.SimpleNamespace(BytesIO=_Buf, SEEK_END=real_io.SEEK_END, SEEK_SET=0, SEEK_CUR=1)
        m.RangeStream = lambda *a, **kw: None
        have = {k: E.boolvar("has_" + k.split(".")[1]) for k in ("vmware.keyInfo", "vmware.cipherName", "vmware.keyHash")}
        gcm = E.boolvar("cipher_is_aes256gcm")
        attrs_present = {k: bool(v) for k, v in have.items()}
        is_gcm = bool(gcm)
        attrs = {}
        for k, p_ in attrs_present.items():
            if p_:
                val = ("AES-256-GCM" if is_gcm else "AES-128-CBC") if k.endswith("cipherName") else b"\x01" * 32
                attrs[k] = m.EnvelopeAttribute(0xB if k.endswith("cipherName") else 0xC, 0, val)
        m._read_envelope_attributes = lambda buf: attrs
        magic = [files.byte_at("img", k) for k in range(21)]
        version = files.word_at("img", 508, 4, "le")
        fver = files.word_at("img", FSIZE - 4096 + 4092, 4, "le")
        vars_ = dict(version=version, footer_version=fver, **{f"magic{k}": b for k, b in enumerate(magic)})

        def build(model):
            fd = files_desc(model, E.apps, seed, ("img",), size=FSIZE)
            return dict(entry="envelope", params=dict(present=attrs_present, gcm=is_gcm), files=fd, call=["open"])

        ctx.scenario = Scenario(vars_, build, lambda mo, d: dict(returns=True))
        m.Envelope(fh)
        accept = core.sym_and(*[b == c for b, c in zip(magic, b"DataTransformEnvelope")], version == 2,
                              all(attrs_present.values()), is_gcm, fver == 1)
        _finish(ctx, accept, "Envelope() accepted an unsupported envelope")

    return ctx.run(body, cov_files=[ENV_SRC])


def vhdx_gate(prop, cfg, tier, seed):
    from harness import vhdxinit

    return vhdxinit.container_task(prop, cfg, tier, seed)

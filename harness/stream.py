"""C08, lemma 2: one step of the real dissect.util.stream.AlignedStream from an arbitrary valid state, over any back-end
that meets the contract of lemma 1 (returns between min(length, size - offset) and length bytes, the first
min(length, size - offset) of which are the guest bytes)."""
from __future__ import annotations

import random

from harness.common import Ctx, Scenario, mi
from symx import core, files, loader
from symx.sbytes import Seg, SymBytes

SRC = "/venv/lib/python3.12/site-packages/dissect/util/stream.py"


def step_task(prop, cfg, tier, seed):
    """cfg: align, op ('read'|'peek'|'seek0'|'seek1'|'seek2'|'readoffset')"""
    align, op = cfg["align"], cfg["op"]
    core.set_width(80)
    m = loader.load(SRC)
    ctx = Ctx(prop, f"stream.{op}", cfg, tier, seed, engine_kw=dict(max_decisions=300))
    MAXS = 1 << 62

    def body(E, ctx):
        size = E.var("size", 0, MAXS)
        pos = E.var("pos", 0, 2 * MAXS)
        calls = []
        nread = [0]

        def conforming(offset, length):
            """what any back-end meeting the contract may return"""
            k = nread[0]
            nread[0] += 1
            good = core.sym_max(core.sym_min(length, size - offset), 0)
            extra = E.var(f"overread{k}", 0, MAXS)
            E.assume(good + extra <= length)
            return SymBytes([Seg("opaque", "guest", offset, good), Seg("opaque", f"junk{k}", 0, extra)])

        class Stream(m.AlignedStream):
            def _read(self, offset, length):
                calls.append((offset, length))
                return conforming(offset, length)

        st = Stream.__new__(Stream)
        m.AlignedStream.__init__(st, size, align)
        st._pos = pos
        st._pos_align = pos - pos % align
        # arbitrary valid buffer state: empty, or what a conforming back-end returned for the current aligned block
        has_buf = E.boolvar("has_buf")
        if bool(has_buf):
            E.assume(st._pos_align < size)
            st._buf = conforming(st._pos_align, align)
        else:
            st._buf = None
        vars_ = dict(size=size, pos=pos)
        arg = None
        if op in ("read", "peek"):
            n = E.var("n", -1, 2 * MAXS)
            vars_["n"] = n
            ctx.scenario = _scenario(ctx, vars_, align, op)
            res = st.read(n) if op == "read" else st.peek(n)
            remaining = core.sym_max(size - pos, 0)
            exp_len = core.ite(n == -1, remaining, core.sym_min(n, remaining))
            exp_start = pos
            exp_pos = pos + exp_len if op == "read" else pos
        elif op == "readoffset":
            off = E.var("offset", 0, 2 * MAXS)
            n = E.var("n", -1, 2 * MAXS)
            vars_.update(offset=off, n=n)
            ctx.scenario = _scenario(ctx, vars_, align, op)
            res = st.readoffset(off, n)
            remaining = core.sym_max(size - off, 0)
            exp_len = core.ite(n == -1, remaining, core.sym_min(n, remaining))
            exp_start = off
            exp_pos = off + exp_len
        else:
            wh = int(op[4:])
            arg = E.var("arg", -2 * MAXS, 2 * MAXS)
            vars_["arg"] = arg
            ctx.scenario = _scenario(ctx, vars_, align, op)
            if wh == 0:
                E.assume(arg >= 0)
            r = st.seek(arg, wh)
            res = SymBytes([])
            exp_len, exp_start = 0, 0
            base = {0: 0, 1: pos, 2: size}[wh]
            exp_pos = core.sym_max(0, base + arg) if wh else arg
            if (r == exp_pos) is False:
                raise AssertionError("seek returned a wrong position")
        res = SymBytes.lift(res)
        j = E.var("j", 0, 4 * MAXS)
        bad = [res.length() != exp_len]
        p = 0
        for s in res.segs:
            inseg = core.sym_and(j >= p, j < p + s.length, j < exp_len)
            if s.kind == "opaque" and s.src == "guest":
                bad.append(core.sym_and(inseg, s.start + (j - p) != exp_start + j))
            else:
                bad.append(inseg)  # a byte that is not guest content inside the result
            p = p + s.length
        bad.append(st._pos != exp_pos)
        bad.append(st._pos_align != st._pos - st._pos % align)
        if st._buf is not None:
            b = SymBytes.lift(st._buf)
            need = core.sym_max(core.sym_min(align, size - st._pos_align), 0)
            first = b.segs[0] if b.segs else None
            if first is None or first.kind != "opaque" or first.src != "guest":
                bad.append(need > 0)
            else:
                bad.append(core.sym_or(first.start != st._pos_align, first.length < need))
        # the back-end is only ever called inside the contract of lemma 1
        for (o, l) in calls:
            bad.append(core.sym_or(o % align != 0, l % align != 0, l <= 0, o >= size, o < 0))
        ctx.obligation(bad, f"AlignedStream.{op} step breaks the byte-array abstraction")

    return ctx.run(body, cov_files=[SRC])


def _scenario(ctx, vars_, align, op):
    """replay: a concrete AlignedStream over a conforming in-memory back-end, prepared in the same state"""
    def build(model):
        return dict(entry="aligned_stream", params=dict(align=align, op=op, **{k: mi(model, v) for k, v in vars_.items()}),
                    files={}, call=["stream_step"])

    def expect(model, desc):
        return dict(stream_step=True)

    return Scenario(vars_, build, expect)

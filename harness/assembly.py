"""C10: multi-extent assembly. (a) the extent-line grammar, decided in z3's regular-expression theory on the real
compiled pattern; (b) VMDK.__init__/read_sectors/_read over 1..3 extents with symbolic sizes (extent readers are stand-ins
presenting 'extent k' bytes; the assembly code is the repository's); (c) StorageStream over 1..3 storages."""
from __future__ import annotations

import random
import re
import time

import z3

from harness.common import Ctx, Scenario, byte_obligation, mi
from oracles.mem import SymOpaque, ite
from symx import core, loader
from symx.sbytes import Seg, SymBytes

VMDK_SRC = loader.repo_path("dissect/hypervisor/disk/vmdk.py")
HDD_SRC = loader.repo_path("dissect/hypervisor/disk/hdd.py")
S = 512
# extent types VMDK.__init__ maps to a reader (data bearing), as listed in the property
DATA_TYPES = ["FLAT", "VMFS", "SPARSE", "VMFSSPARSE", "SESPARSE"]


# ---- (a) grammar ------------------------------------------------------------------------------------------------

def _rx(pattern, flags):
    from re import _constants as sc
    from re import _parser as sp

    FULL = z3.Range(chr(1), chr(0xFFFF))  # U+0000 cannot pass through the z3 string API
    WS = z3.Union(*[z3.Re(c) for c in " \t\n\r\x0b\x0c"])
    DIGIT = z3.Range("0", "9")

    def cat(rs):
        rs = list(rs)
        if not rs:
            return z3.Re("")
        r = rs[0]
        for x in rs[1:]:
            r = z3.Concat(r, x)
        return r

    def category(c):
        if c == sc.CATEGORY_SPACE:
            return WS
        if c == sc.CATEGORY_NOT_SPACE:
            return z3.Intersect(FULL, z3.Complement(WS))
        if c == sc.CATEGORY_DIGIT:
            return DIGIT
        if c == sc.CATEGORY_NOT_DIGIT:
            return z3.Intersect(FULL, z3.Complement(DIGIT))
        raise core.Unsupported(f"regex category {c}")

    def tr(items):
        out = []
        for op, av in items:
            if op == sc.LITERAL:
                out.append(z3.Re(chr(av)))
            elif op == sc.NOT_LITERAL:
                out.append(z3.Intersect(FULL, z3.Complement(z3.Re(chr(av)))))
            elif op == sc.ANY:
                out.append(z3.Intersect(FULL, z3.Complement(z3.Re("\n"))))
            elif op == sc.IN:
                alts, neg = [], False
                for o2, a2 in av:
                    if o2 == sc.NEGATE:
                        neg = True
                    elif o2 == sc.LITERAL:
                        alts.append(z3.Re(chr(a2)))
                    elif o2 == sc.RANGE:
                        alts.append(z3.Range(chr(a2[0]), chr(a2[1])))
                    elif o2 == sc.CATEGORY:
                        alts.append(category(a2))
                    else:
                        raise core.Unsupported(f"regex set item {o2}")
                r = alts[0] if len(alts) == 1 else z3.Union(*alts)
                out.append(z3.Intersect(FULL, z3.Complement(r)) if neg else r)
            elif op == sc.BRANCH:
                out.append(z3.Union(*[tr(b) for b in av[1]]))
            elif op == sc.SUBPATTERN:
                out.append(tr(av[3]))
            elif op in (sc.MAX_REPEAT, sc.MIN_REPEAT):
                lo, hi, sub = av
                r = tr(sub)
                if (lo, hi) == (0, 1):
                    out.append(z3.Option(r))
                elif lo == 0 and hi == sc.MAXREPEAT:
                    out.append(z3.Star(r))
                elif lo == 1 and hi == sc.MAXREPEAT:
                    out.append(z3.Plus(r))
                else:
                    out.append(z3.Loop(r, lo, hi))
            elif op == sc.AT:
                if av in (sc.AT_BEGINNING, sc.AT_END, sc.AT_BEGINNING_STRING, sc.AT_END_STRING):
                    continue  # whole-line matching below
                raise core.Unsupported(f"regex anchor {av}")
            else:
                raise core.Unsupported(f"regex op {op}")
        return cat(out)

    return tr(sp.parse(pattern, flags)), FULL, WS, DIGIT, cat


def grammar_check(seed):
    """-> dict(errors, violations, obligations, discharged, samples, solver_s). Every conformant extent line of a type the
    reader handles must be in the language of the real RE_EXTENT_DESCRIPTOR (and must not be silently dropped)."""
    import json
    import os

    from dissect.hypervisor.disk import vmdk

    t0 = time.time()
    out = dict(errors=[], violations=[], obligations=0, discharged=0, samples=[], queries=0)
    try:
        impl, FULL, WS, DIGIT, cat = _rx(vmdk.RE_EXTENT_DESCRIPTOR.pattern, vmdk.RE_EXTENT_DESCRIPTOR.flags)
    except core.Unsupported as ex:
        out["errors"].append(f"extent grammar not translatable: {ex}")
        return out
    name_char = z3.Intersect(FULL, z3.Complement(z3.Union(z3.Re('"'), z3.Re("\n"), z3.Re("\r"))))
    fname = cat([z3.Re('"'), z3.Plus(name_char), z3.Re('"')])
    num = z3.Union(z3.Re("0"), cat([z3.Range("1", "9"), z3.Star(DIGIT)]))
    access = z3.Union(z3.Re("RW"), z3.Re("RDONLY"), z3.Re("NOACCESS"))
    s = z3.String("line")
    for ty in DATA_TYPES + ["ZERO"]:
        spec = cat([access, z3.Re(" "), num, z3.Re(" "), z3.Re(ty),
                    z3.Option(cat([z3.Re(" "), fname, z3.Option(cat([z3.Re(" "), num]))]))])
        if ty == "ZERO":
            spec = cat([access, z3.Re(" "), num, z3.Re(" "), z3.Re(ty)])
        sol = z3.Solver()
        sol.set("timeout", 60000)
        sol.add(z3.InRe(s, spec), z3.Not(z3.InRe(s, impl)), z3.Length(s) <= 64)
        out["obligations"] += 1
        out["queries"] += 1
        r = core.guarded_check(sol, 60000)
        if r == z3.unsat:
            out["discharged"] += 1
            continue
        if r != z3.sat:
            out["errors"].append(f"grammar query for {ty}: solver returned {r}")
            continue
        line = sol.model()[s].as_string()
        try:
            line = line.encode().decode("unicode_escape") if "\\u{" not in line else re.sub(
                r"\\u\{([0-9a-fA-F]+)\}", lambda mm: chr(int(mm.group(1), 16)), line)
        except Exception:  # noqa: BLE001
            pass
        # replay on the real parser: a conformant data-bearing line must yield an extent
        desc = vmdk.DiskDescriptor.parse(line)
        if len(desc.extents) != 1 or desc.extents[0].type != ty:
            os.makedirs("/verif/replays", exist_ok=True)
            path = f"/verif/replays/C10_extent_grammar_{ty}.json"
            with open(path, "w") as fh:
                json.dump(dict(property="C10", entry="vmdk_descriptor_line", params={}, files={}, call=["parse_line", line],
                               expect=dict(value=[ty]), why=f"conformant {ty} extent line is not accepted by the grammar",
                               vars=dict(line=line)), fh)
            out["violations"].append(dict(what=f"a conformant {ty} extent line is dropped by DiskDescriptor.parse",
                                          replay=path, detail=repr(line), vars=dict(line=line)))
        else:
            out["errors"].append(f"z3 says {line!r} is outside the pattern's language but the real parser accepts it")
    # group unambiguity: a conformant line cannot be decomposed with two different file names
    f1, f2, r1, r2, pre = z3.Strings("f1 f2 r1 r2 pre")
    head = cat([access, z3.Re(" "), num, z3.Re(" "), z3.Union(*[z3.Re(t) for t in DATA_TYPES])])
    ns = z3.Plus(z3.Intersect(FULL, z3.Complement(WS)))
    rest = cat([z3.Option(cat([WS, z3.Plus(DIGIT)])), z3.Option(cat([WS, ns])), z3.Option(cat([WS, ns]))])
    implf = cat([z3.Re('"'), z3.Plus(z3.Intersect(FULL, z3.Complement(z3.Re("\n")))), z3.Re('"')])
    sol = z3.Solver()
    sol.add(z3.InRe(pre, cat([head, WS])), z3.InRe(f1, implf), z3.InRe(f2, implf), z3.InRe(r1, rest), z3.InRe(r2, rest),
            z3.Concat(pre, f1, r1) == z3.Concat(pre, f2, r2), f1 != f2, z3.InRe(f1, fname),
            z3.InRe(r1, z3.Option(cat([z3.Re(" "), num]))),
            z3.Length(pre) + z3.Length(f1) + z3.Length(r1) <= 28)
    out["obligations"] += 1
    out["queries"] += 1
    r = core.guarded_check(sol, 60000)
    if r == z3.unsat:
        out["discharged"] += 1
    elif r == z3.sat:
        out["errors"].append(f"ambiguous file-name group for a conformant line: {sol.model()}")
    else:
        out["samples"].append(dict(kind="group unambiguity", outcome="solver returned unknown within 60 s: not claimed"))
        out["obligations"] -= 1
    out["solver_s"] = round(time.time() - t0, 2)
    out["samples"].append(dict(kind="grammar inclusion", types=DATA_TYPES + ["ZERO"], line_length_bound=64,
                               outcome=f"{out['discharged']}/{out['obligations']} discharged"))
    return out


# ---- (b) VMDK assembly ------------------------------------------------------------------------------------------

class _Handle:
    """A concrete stand-in handle whose first bytes select the extent reader in VMDK.__init__."""

    def __init__(self, magic, idx):
        self.magic, self.idx, self.pos, self.name = magic, idx, 0, None

    def read(self, n=-1):
        r = self.magic[self.pos: self.pos + n] if n >= 0 else self.magic[self.pos:]
        self.pos += len(r)
        return r

    def seek(self, off, whence=0):
        self.pos = off if whence == 0 else self.pos + off if whence == 1 else len(self.magic) + off
        return self.pos

    def tell(self):
        return self.pos


def vmdk_assembly_task(prop, cfg, tier, seed):
    """cfg: n (number of extents), kinds: list of 'sparse'|'raw', tail"""
    n = cfg["n"]
    kinds = cfg.get("kinds", ["sparse"] * n)
    core.set_width(72)
    m = loader.load(VMDK_SRC)
    ctx = Ctx(prop, "vmdk.assembly", cfg, tier, seed, engine_kw=dict(max_decisions=400))
    rng = random.Random(seed)

    def body(E, ctx):
        counts = [E.var(f"sectors{k}", 1, 1 << 40) for k in range(n)]
        made = []

        class ExtentStub:
            def __init__(self, fh, *a, **kw):
                self.k = fh.idx
                self.parent = kw.get("parent")
                self.descriptor = None
                self.sector_count = counts[self.k]
                self.size = counts[self.k] * S
                self.offset = 0
                self.sector_offset = 0
                made.append(self)

            def read_sectors(self, sector, count):
                return SymBytes([Seg("opaque", f"extent{self.k}", (sector - self.sector_offset) * S, count * S)])

        m.SparseDisk = ExtentStub
        m.RawDisk = ExtentStub
        fhs = [_Handle(b"KDMV" if kinds[k] == "sparse" else b"\xeb\x3c\x90\x00", k) for k in range(n)]
        total = 0
        for c in counts:
            total = total + c
        sector = E.var("sector", 0, 1 << 42)
        count = E.var("count", 1, cfg.get("max_count", 1 << 20))
        E.assume(sector < total)
        if not cfg.get("tail"):
            E.assume(sector + count <= total)
        j = E.var("j", 0, 1 << 52)
        vars_ = dict(sector=sector, count=count, j=j, **{f"sectors{k}": c for k, c in enumerate(counts)})

        def build(model):
            return dict(entry="vmdk_assembly", params=dict(counts=[mi(model, c) for c in counts], kinds=kinds), files={},
                        call=["_read", mi(model, sector) * S, mi(model, count) * S])

        def expect(model, desc):
            cs = [mi(model, c) for c in counts]
            tot = min(mi(model, count), sum(cs) - mi(model, sector)) * S
            return dict(assembly=True, len=tot)

        ctx.scenario = Scenario(vars_, build, expect, prefer=[count <= 4096])
        obj = m.VMDK(fhs if n > 1 else fhs[0])
        res = obj._read(sector * S, count * S)
        explen = core.sym_min(count, total - sector) * S
        g = sector * S + j
        # oracle: the concatenation of the extents in declared order
        val = None
        start = 0
        for k in range(n):
            v = SymOpaque(f"extent{k}").byte(g - start * S)
            inside = core.sym_and(g >= start * S, g < (start + counts[k]) * S)
            val = v if val is None else ite(inside, v, val)
            start = start + counts[k]
        bad = byte_obligation(res, j, explen, val, extra=[obj.size != total * S, len(made) != n],
                              maxlen=count * S if cfg.get("tail") else None)
        if ctx.obligation(bad, "multi-extent read is not the concatenation of the extents"):
            ctx.witness()

    return ctx.run(body, cov_files=[VMDK_SRC])


# ---- (c) Parallels StorageStream -----------------------------------------------------------------------------------

def storage_stream_task(prop, cfg, tier, seed):
    """cfg: n storages with symbolic contiguous [start, end) sector ranges, given in any order."""
    import types

    n = cfg["n"]
    order = cfg.get("order", list(range(n)))
    core.set_width(72)
    m = loader.load(HDD_SRC)
    ctx = Ctx(prop, "hdd.storage_stream", cfg, tier, seed, engine_kw=dict(max_decisions=400))

    class Member:
        def __init__(self, k):
            self.k, self.pos = k, 0

        def seek(self, off, whence=0):
            self.pos = off
            return off

        def read(self, nbytes=-1):
            r = SymBytes([Seg("opaque", f"storage{self.k}", self.pos, nbytes)])
            self.pos = self.pos + nbytes
            return r

    def body(E, ctx):
        lens = [E.var(f"sectors{k}", 1, 1 << 40) for k in range(n)]
        starts, acc = [], 0
        for k in range(n):
            starts.append(acc)
            acc = acc + lens[k]
        total = acc
        storages = [types.SimpleNamespace(start=starts[k], end=starts[k] + lens[k], images=[]) for k in range(n)]
        streams = [(storages[k], Member(k)) for k in order]
        offset = E.var("offset", 0, 1 << 52)
        length = E.var("length", 512, cfg.get("max_len", 1 << 24))
        E.assume(offset % S == 0)
        E.assume(length % S == 0)
        E.assume(offset < total * S)
        if not cfg.get("tail"):
            E.assume(offset + length <= total * S)
        j = E.var("j", 0, 1 << 52)
        vars_ = dict(offset=offset, length=length, j=j, **{f"sectors{k}": c for k, c in enumerate(lens)})

        def build(model):
            return dict(entry="storage_stream", params=dict(lens=[mi(model, c) for c in lens], order=order), files={},
                        call=["_read", mi(model, offset), mi(model, length)])

        def expect(model, desc):
            tot = min(mi(model, length), sum(mi(model, c) for c in lens) * S - mi(model, offset))
            return dict(assembly=True, len=tot)

        ctx.scenario = Scenario(vars_, build, expect, prefer=[length <= 1 << 21])
        obj = m.StorageStream(streams)
        res = obj._read(offset, length)
        explen = core.sym_min(length, total * S - offset)
        g = offset + j
        val = None
        for k in range(n):
            v = SymOpaque(f"storage{k}").byte(g - starts[k] * S)
            inside = core.sym_and(g >= starts[k] * S, g < (starts[k] + lens[k]) * S)
            val = v if val is None else ite(inside, v, val)
        bad = byte_obligation(res, j, explen, val, extra=[obj.size != total * S],
                              maxlen=length if cfg.get("tail") else None)
        if ctx.obligation(bad, "StorageStream read is not the concatenation of the storages"):
            ctx.witness()

    return ctx.run(body, cov_files=[HDD_SRC])

"""C11: reference walks must terminate on cyclic / self-referencing input."""
from __future__ import annotations

import uuid

from harness.common import Ctx, Scenario, mi
from harness.gates import hyperv_load
from symx import core, files, loader
from symx.files import SymFile

HDD_SRC = loader.repo_path("dissect/hypervisor/disk/hdd.py")
HV_SRC = loader.repo_path("dissect/hypervisor/descriptor/hyperv.py")


def snapshot_chain_task(prop, cfg, tier, seed):
    """Descriptor.get_snapshot_chain over n shots whose parent pointers are symbolic (any shot, or the null GUID)."""
    n = cfg["n"]
    m = loader.load(HDD_SRC)
    ctx = Ctx(prop, "faults.snapshot_chain", cfg, tier, seed, engine_kw=dict(max_decisions=200))
    guids = [uuid.UUID(int=k + 1) for k in range(n)]

    class G:
        """a GUID-valued symbolic value: index into guids, or n for the null GUID"""

        def __init__(self, idx):
            self.idx = idx

        def __eq__(self, o):
            if isinstance(o, G):
                return self.idx == o.idx
            if isinstance(o, uuid.UUID):
                k = guids.index(o) if o in guids else (n if o == m.NULL_GUID else -1)
                return self.idx == k
            return False

        def __ne__(self, o):
            return core.sym_not(self.__eq__(o))

        def __hash__(self):
            return 0

    def body(E, ctx):
        parents = [E.var(f"parent{k}", 0, n) for k in range(n)]
        shots = [m.Shot(G(k), G(parents[k])) for k in range(n)]
        d = m.Descriptor.__new__(m.Descriptor)
        d.snapshots = m.Snapshots(None, shots)
        vars_ = {f"parent{k}": p for k, p in enumerate(parents)}

        def build(model):
            return dict(entry="snapshot_chain", params=dict(parents=[mi(model, p) for p in parents]), files={},
                        call=["chain"])

        ctx.scenario = Scenario(vars_, build, lambda mo, de: dict(terminates=True))
        chain = d.get_snapshot_chain(G(0))
        ctx.obligation([len(chain) > n], "snapshot chain longer than the number of shots")

    from harness.common import fault_mode
    fault_mode(ctx)
    return ctx.run(body, cov_files=[HDD_SRC])


def keytable_walk_task(prop, cfg, tier, seed):
    """HyperVStorageKeyTable.__init__ entry walk on a symbolic table of cfg['size'] bytes."""
    size = cfg["size"]
    core.set_width(72)
    m = hyperv_load()
    m.memoryview = lambda b: b
    ctx = Ctx(prop, "faults.keytable_walk", cfg, tier, seed, engine_kw=dict(max_decisions=300))
    from harness.common import fault_mode
    fault_mode(ctx)

    def body(E, ctx):
        fh = SymFile("img")
        E.assume(files.word_at("img", 0x5000, 2, "le") == 2)  # key table signature
        import types

        hv = types.SimpleNamespace(fh=fh)

        def build(model):
            from symx import replay

            pat = replay.patches_from_apps(model, E.apps).get("img", {})
            return dict(entry="hyperv_keytable", params=dict(size=size, patches=[[a - 0x5000, b.hex()] for a, b in pat.items()]),
                        files={}, call=["walk"])

        ctx.scenario = Scenario({}, build, lambda mo, de: dict(terminates=True))
        t = m.HyperVStorageKeyTable(hv, 0x5000, size)
        ctx.obligation([len(t.entries) > size], "more key-table entries than bytes in the table")

    return ctx.run(body, cov_files=[HV_SRC])


def object_tables_task(prop, cfg, tier, seed):
    """HyperVFile.__init__ with object-table entries of symbolic type/offset (an entry may name another object table,
    including the one it is in)."""
    n = cfg["n"]
    core.set_width(72)
    m = hyperv_load()
    ctx = Ctx(prop, "faults.object_tables", cfg, tier, seed, engine_kw=dict(max_decisions=300))
    from harness.common import fault_mode
    fault_mode(ctx)

    class TableStub:
        def __init__(self, hvf, offset, size=0):
            self.index, self.sequence_number, self.entries, self._lookup = 0, 0, [], {}

    def body(E, ctx):
        fsize = E.var("fsize", 0x4000, 1 << 30)
        fh = SymFile("img", size=fsize, eof=True)
        E.assume(files.word_at("img", 0, 4, "le") == 0x01282014)
        E.assume(files.word_at("img", 10, 4, "le") == 0x400)
        E.assume(files.word_at("img", 8, 2, "le") > files.word_at("img", 0x1008, 2, "le"))
        rlo = files.word_at("img", 26, 8, "le")
        E.assume(rlo == 0x3000)
        E.assume(files.word_at("img", 0x3000, 4, "le") == 0x01110003)
        E.assume(files.word_at("img", 0x3008, 4, "le") == 0)
        m.HyperVStorageKeyTable = TableStub
        offs = []
        for base in (0x2000,):
            E.assume(files.word_at("img", base, 4, "le") == 0x01110001)
            E.assume(files.word_at("img", base + 4, 4, "le") == n)
            for k in range(n):
                eo = base + 8 + 18 * k
                off = files.word_at("img", eo + 5, 8, "le")
                # entries point at the first object table again or at one more table at 0x2800 (same shape)
                E.assume(core.sym_or(off == 0x2000, off == 0x2800))
                offs.append(off)
        E.assume(files.word_at("img", 0x2800, 4, "le") == 0x01110001)
        E.assume(files.word_at("img", 0x2804, 4, "le") <= n)
        for k in range(n):
            off = files.word_at("img", 0x2808 + 18 * k + 5, 8, "le")
            E.assume(core.sym_or(off == 0x2000, off == 0x2800))

        def build(model):
            from symx import replay

            pat = replay.patches_from_apps(model, E.apps).get("img", {})
            return dict(entry="hyperv_file", params={}, files=dict(img=dict(size=mi(model, fsize), seed=3, patches=[[a, b.hex()] for a, b in sorted(pat.items())])),
                        call=["open"])

        ctx.scenario = Scenario(dict(fsize=fsize), build, lambda mo, de: dict(terminates=True))
        hvf = m.HyperVFile(fh)
        ctx.obligation([len(hvf.object_tables) > 2], "object tables were visited more than once")

    return ctx.run(body, cov_files=[HV_SRC])

"""C02 - VMDK: every byte range of a sparse/flat extent reads as guest content."""
from __future__ import annotations

from harness import vmdk

META = dict(
    level="model_checking",
    bounds="kinds: hosted sparse KDMV with header- and footer-located grain directory, stream-optimized (compressed, with "
           "and without embedded LBA), ESX COWD, SE-sparse, flat; grain size {8, 128, 2048} x grain-table length {512, 4096} "
           "(quick: a subset); request <= N grains (1; thorough 2 for KDMV 128/512) at any sector; file size, capacity (<= 2^50 "
           "sectors), directory/table/grain placement, every GD/GT entry, grain headers and the request symbolic; reads past "
           "EOF are short (the file size is observable by the reader)",
    outside=["embedded text descriptor (descriptor_size pinned to 0; C14/C10)", "marker scanning of stream-optimized files "
             "(the reader uses the footer's grain directory)", "requests longer than N grains"],
    assumptions=["dissect.cstruct layouts as learned from the real parser each run", "ctypes.c_int64 is two's complement "
                 "reinterpretation", "zlib is a deterministic function of its input range; well-formed grains inflate to "
                 "exactly one grain", "lru_cache is a correct memoiser (elided)",
                 "well-formed: every directory, table and grain the specification refers to for the request lies inside "
                 "the file; capacity covered by the directory"],
    must_reach=[(vmdk.SRC, r"sectors_read\.append\((sector_data|b\"|buf\[)")],
)
SPLIT_DEPTH = 12


def tasks(tier):
    out = []
    n = 1 if tier == "quick" else 2
    C, L = 0x10000, 0x20000
    if tier == "quick":
        out += [("read", dict(kind="kdmv", grain_size=128, ngte=512, n_grains=n)),
                ("read", dict(kind="kdmv_footer", grain_size=128, ngte=512, flags=C | L, n_grains=n)),
                ("read", dict(kind="kdmv", grain_size=8, ngte=512, flags=C, n_grains=n)),
                ("read", dict(kind="cowd", grain_size=128, n_grains=n)),
                ("read", dict(kind="sesparse", grain_size=8, gt_sectors=64, n_grains=n)),
                ("read", dict(kind="kdmv", grain_size=128, ngte=512, n_grains=n, tail=True)),
                ("flat", dict(max_count=1 << 15, tail=True))]
    else:
        for gs in (8, 128, 2048):
            for ngte in (512, 4096):
                out.append(("read", dict(kind="kdmv", grain_size=gs, ngte=ngte, n_grains=n if (ngte == 512 and gs == 128) else 1)))
                out.append(("read", dict(kind="kdmv_footer", grain_size=gs, ngte=ngte, flags=C | L, n_grains=1)))
            out.append(("read", dict(kind="kdmv", grain_size=gs, ngte=512, flags=C, n_grains=1)))
            out.append(("read", dict(kind="cowd", grain_size=gs, n_grains=1)))
            out.append(("read", dict(kind="kdmv", grain_size=gs, ngte=512, n_grains=1, tail=True)))
        for gt in (1, 64):
            out.append(("read", dict(kind="sesparse", grain_size=8, gt_sectors=gt, n_grains=1)))
        out.append(("read", dict(kind="sesparse", grain_size=8, gt_sectors=64, n_grains=1, tail=True)))
        out.append(("read", dict(kind="cowd", grain_size=128, n_grains=1, via="disk")))
        out.append(("flat", dict(max_count=1 << 15, tail=True)))
    return out


def run(hname, cfg, tier, seed):
    if hname == "flat":
        return vmdk.flat_task("C02", cfg, tier, seed)
    return vmdk.read_task("C02", cfg, tier, seed)


def precheck(tier, seed):
    import io

    from dissect.hypervisor.disk.vmdk import VMDK
    from harness import fixtures
    from oracles import vmdk as spec

    errors, traces = [], 0
    data = fixtures.load_gz("sesparse.vmdk.gz")
    obj = VMDK(io.BytesIO(data))
    mem = fixtures.mem_of(data)
    gs = int.from_bytes(data[24:32], "little")
    gts = int.from_bytes(data[32:40], "little")

    def real(off, ln):
        obj.seek(off)
        return obj.read(ln)

    traces += fixtures.compare("sesparse.vmdk.gz", real, lambda g: spec.sesparse_guest_byte(g, mem, gs, gts), obj.size,
                               (gs * 512,), seed, errors)
    return dict(errors=errors, traces=traces, summary="oracle == real reader on sesparse.vmdk (tests/data)")

"""C13 - Lazy access: I/O proportional to the request, correct at multi-terabyte scale."""
from __future__ import annotations

from harness import hds, qcow2, vdi, vhd, vhdx, vmdk

MB = 1 << 20

META = dict(
    level="model_checking",
    bounds="the read harnesses of C01-C06 with I/O accounting on the symbolic file: on every path the sum of the lengths of "
           "all file reads issued by open + _read, and their number, are bounded by a term of header fields and the request "
           "only (header + directory/map size + per touched unit: one table or entry, compressed size, data); all offsets "
           "are 64-bit symbolic, and per configuration a witness image with table/data addresses >= 2^40 and sector numbers "
           ">= 2^32 is solved for and replayed through the real reader; one configuration per reader",
    outside=["I/O of parents/backing files", "memory use of the Python objects themselves", "requests longer than the bounds "
             "of C01-C06"],
    assumptions=["as C01-C06; the bound terms are stated in harness/*.py (io_cases)"],
    must_reach=[],
)
SPLIT_DEPTH = 12


def tasks(tier):
    return [("vhdx", dict(block_size=MB, sector_size=512, n_blocks=1, io=True, wide=True)),
            ("vhd", dict(kind="dynamic", block_size=1 << 21, n_blocks=1, io=True, wide=True)),
            ("vhd", dict(kind="fixed", io=True, wide=True, max_len=1 << 20)),
            ("vdi", dict(block_size=1 << 20, n_blocks=1, io=True, wide=True)),
            ("hds", dict(version=2, tracks=2048, n_clusters=1, io=True, wide=True)),
            ("qcow2", dict(cluster_bits=16, n_clusters=1, io=True, wide=True)),
            ("vmdk", dict(kind="kdmv", grain_size=128, ngte=512, n_grains=1, io=True, wide=True)),
            ("vmdk", dict(kind="sesparse", grain_size=8, gt_sectors=64, n_grains=1, io=True, wide=True))]


def run(hname, cfg, tier, seed):
    mod = dict(vhdx=vhdx, vhd=vhd, vdi=vdi, hds=hds, qcow2=qcow2, vmdk=vmdk)[hname]
    return mod.read_task("C13", cfg, tier, seed)

"""Shared machinery for harnesses: per-path bookkeeping, obligations, counterexample triage (replay on the
real code, known-finding regions), witness validation, result records."""
from __future__ import annotations

import json
import os
import time
import traceback

import z3

from symx import core, files, replay
from symx.core import Engine, Inconclusive, SymBool, Unsupported, bvval

VERIF = os.path.dirname(os.path.dirname(os.path.abspath(__file__)))
REPLAYS = os.path.join(VERIF, "replays")
KNOWN_FILE = os.path.join(VERIF, "known_findings.json")

REGION_NS = dict(And=core.sym_and, Or=core.sym_or, Not=core.sym_not, ite=core.ite, min=core.sym_min, max=core.sym_max)


def load_known(prop):
    try:
        with open(KNOWN_FILE) as fh:
            data = json.load(fh)
    except FileNotFoundError:
        return []
    return [k for k in data.get("findings", []) if k.get("property") == prop and k.get("status", "open") == "open"]


class Scenario:
    """What a path needs in order to turn a model into a run of the real code.

    vars:    name -> SymInt/int (reported in samples, usable in known-finding regions)
    build:   model -> replay description (without 'expect')
    expect:  (model, desc) -> expectation dict computed from the oracle on the concrete image
    extra:   hard realisability constraints (SymBool); prefer: soft ones that keep the image small
    """

    def __init__(self, vars, build, expect, extra=(), prefer=(), need=()):
        self.vars, self.build, self.expect = vars, build, expect
        self.extra = list(extra)    # physical realisability (no image can violate these)
        self.need = list(need)      # what the replay machinery needs in order to build the image
        self.prefer = list(prefer)  # soft: keep the image small


class TaskResult(dict):
    def __init__(self, prop, harness, cfg):
        super().__init__(property=prop, harness=harness, cfg=cfg, paths=0, feasible_paths=0, decisions=0,
                         obligations=0, discharged=0, violations=[], known=[], witnesses=0, witness_failures=[],
                         unrealisable=0, inconclusive=[], errors=[], solver_s=0.0, int_checks=0, bv_checks=0,
                         samples=[], funcs=[], lines=[], wall_s=0.0, exceptions={}, exhausted=0, notes=[])


def _overlap_bools(apps):
    return [SymBool(b, i) for b, i in replay.no_partial_overlap(apps)]


class Ctx:
    """Per-task context handed to the harness body."""

    def __init__(self, prop, harness, cfg, tier, seed, engine_kw=None):
        self.prop, self.harness, self.cfg, self.tier, self.seed = prop, harness, cfg, tier, seed
        self.known = [k for k in load_known(prop) if k.get("harness") in (None, harness)]
        self.res = TaskResult(prop, harness, cfg)
        self.E = Engine(name=f"{prop}:{harness}", **(engine_kw or {}))
        if cfg.get("decide"):
            self.E.decide_first = cfg["decide"]
        self.E.path_hooks.append(self._reset)
        self.scenario = None
        self.path_no = 0
        self.witness_stride = 1 if tier == "thorough" else int(cfg.get("witness_stride", 6))
        self.max_witnesses = cfg.get("max_witnesses", 400 if tier == "thorough" else 12)
        self.replay_in_process = generic_in_process
        self.t0 = time.time()
        self.max_violations = int(cfg.get("max_violations", 2))
        budget = cfg.get("time_budget", 900 if tier == "quick" else 7200)
        self.E.deadline = self.t0 + budget

    def _reset(self):
        self.E.apps = []
        self.E.linked = set()
        self.E.symviews = {}
        self.E.views = {}
        self.E.monitor = []
        self.E.pins = dict(self.cfg.get("pins", {}))
        self.scenario = None
        self.path_no += 1

    # ---- known-finding regions -------------------------------------------------------------------------
    def _regions(self):
        out = []
        sc = self.scenario
        for k in self.known:
            when = k.get("when", {})
            if any(self.cfg.get(a) != b for a, b in when.items()):
                continue
            ns = dict(REGION_NS)
            ns.update(sc.vars if sc else {})
            ns["cfg"] = self.cfg
            try:
                r = eval(k["region"], {"__builtins__": {}}, ns)  # noqa: S307 - committed file, never written at run time
                out.append((k, r))
            except Exception as ex:  # noqa: BLE001
                self.res["errors"].append(f"known finding {k.get('id')}: region not evaluable here: {ex}")
        return out

    # ---- replay helpers ---------------------------------------------------------------------------------
    def _solve_realisable(self, cons):
        """model of pc and cons and realisability constraints (and soft preferences when possible), or None.
        Sets self.unreplayable when a physically realisable model exists but the replay machinery cannot build it."""
        sc = self.scenario
        self.unreplayable = False
        extra = list(sc.extra) if sc else []
        if sc is not None and getattr(sc, "extra_fn", None):
            extra += list(sc.extra_fn())  # constraints that depend on everything recorded up to now
        try:
            extra += _overlap_bools(self.E.apps)
        except Exception as ex:  # noqa: BLE001
            self.res["notes"].append(f"overlap constraints skipped: {ex}")
        conds = list(cons) + extra
        need = list(sc.need) if sc else []
        if sc and sc.prefer:
            try:
                m = self.E.decide_case(True, conds + need + list(sc.prefer))
            except Inconclusive:
                m = None
            if m is not None:
                return m
        small = list(getattr(sc, "small", [])) if sc else []
        if small:
            # keep table sizes replayable: try growing bounds before giving up on any bound
            for k in (22, 26, 30):
                try:
                    m = self.E.decide_case(True, conds + need + [v <= (1 << k) for v in small])
                except Inconclusive:
                    m = None
                if m is not None:
                    return m
        m = self.E.decide_case(True, conds + need)
        if m is None and need:
            if self.E.decide_case(True, conds) is not None:
                self.unreplayable = True
        return m

    def _describe(self, model, why):
        sc = self.scenario
        desc = sc.build(model)
        desc["property"] = self.prop
        desc["harness"] = self.harness
        desc["cfg"] = {k: v for k, v in self.cfg.items() if isinstance(v, (int, str, bool, float, type(None)))}
        desc["why"] = why
        desc["expect"] = sc.expect(model, desc)
        desc["vars"] = {}
        for k, t in sc.vars.items():
            try:
                desc["vars"][k] = mi(model, t)
            except Exception:  # noqa: BLE001
                pass
        return desc

    def _save(self, desc, tag):
        os.makedirs(REPLAYS, exist_ok=True)
        name = f"{self.prop}_{self.harness}_{tag}_{os.getpid()}_{self.path_no}.json"
        path = os.path.join(REPLAYS, name)
        with open(path, "w") as fh:
            json.dump(desc, fh)
        return path

    def _run(self, desc, in_process):
        if in_process and self.replay_in_process is not None:
            try:
                return self.replay_in_process(desc)
            except Exception as ex:  # noqa: BLE001
                return "error", f"{type(ex).__name__}: {ex}\n{traceback.format_exc()[-800:]}"
        return replay.run_replay(desc)

    # ---- obligations ------------------------------------------------------------------------------------
    def obligation(self, bad, what):
        """`bad`: a SymBool/bool, or a list of them (a case split of one obligation); each must be unsatisfiable
        together with the path condition."""
        self.res["obligations"] += 1
        bads = list(bad) if isinstance(bad, (list, tuple)) else [bad]
        regions = self._regions()
        neg = [core.sym_not(r) for _, r in regions]
        for b in bads:
            m = self.E.decide_case(b, neg)
            if m is None:
                continue
            # a counterexample outside every known region: make it realisable and replay it on the real code
            try:
                mr = self._solve_realisable([b] + neg)
            except Inconclusive:
                mr = None
            if mr is None:
                if getattr(self, "unreplayable", False):
                    self.res["inconclusive"].append(f"{what}: a counterexample exists but cannot be built as a replay image")
                    continue
                self.res["unrealisable"] += 1
                self.res["notes"].append(f"{what}: counterexample exists only for physically impossible (overlapping) layouts")
                continue
            self._triage(mr, what)
            return False
        if regions:
            for b in bads:
                if self.E.decide_case(b) is not None:
                    # every counterexample lies inside listed regions
                    for k, r in regions:
                        if self.E.decide_case(b, [r]) is not None and k["id"] not in self.res["known"]:
                            self.res["known"].append(k["id"])
        self.res["discharged"] += 1
        return True

    def _triage(self, model, what, expect_override=None):
        try:
            desc = self._describe(model, what)
            if expect_override:
                desc["expect"] = expect_override
        except replay.Unrealisable as ex:
            self.res["unrealisable"] += 1
            self.res["notes"].append(f"{what}: model not realisable ({ex})")
            return
        verdict, detail = self._run(desc, in_process=False)
        if verdict == "violation":
            path = self._save(desc, "cex")
            self.res["violations"].append(dict(what=what, replay=path, detail=detail, vars=desc.get("vars")))
            if len(self.res["violations"]) >= self.max_violations:
                self.E.stop = True
        elif verdict == "ok":
            path = self._save(desc, "nonrepro")
            self.res["errors"].append(f"{what}: solver counterexample does not reproduce on the real code "
                                      f"(encoding/stub problem) replay={path} {detail}")
        else:
            path = self._save(desc, "replayerr")
            self.res["errors"].append(f"{what}: replay failed to run: {detail} replay={path}")

    def path_raised(self, ex):
        """A feasible path inside the precondition ended in an exception: candidate violation of 'the read returns'."""
        name = type(ex).__name__
        self.res["exceptions"][name] = self.res["exceptions"].get(name, 0) + 1
        # an exception thrown by the harness itself (not by the code under test or its stand-ins) is never a verdict
        tb, last = ex.__traceback__, None
        while tb:
            last = tb.tb_frame.f_code.co_filename
            tb = tb.tb_next
        if isinstance(ex, replay.Unrealisable) or (last and "/verif/harness/" in last and _where(ex) == "?"):
            import traceback as _tb

            self.res["errors"].append(f"harness crashed inside the check: {name}: {ex} "
                                      f"{''.join(_tb.format_tb(ex.__traceback__)[-2:])[-400:]}")
            return
        if getattr(self, "raises_ok", None) is not None:
            return self.raises_ok(ex)
        if self.scenario is None:
            self.res["errors"].append(f"exception before the scenario was set: {name}: {ex} @ {_where(ex)}")
            return
        what = f"raises {name}: {str(ex)[:120]} @ {_where(ex)}"
        self.res["obligations"] += 1
        regions = self._regions()
        neg = [core.sym_not(r) for _, r in regions]
        if neg and self.E.decide_case(True, neg) is None:
            for k, r in regions:
                if self.E.decide_case(True, [r]) is not None and k["id"] not in self.res["known"]:
                    self.res["known"].append(k["id"])
            self.res["discharged"] += 1
            return
        try:
            mr = self._solve_realisable(neg)
        except Inconclusive:
            mr = None
        if mr is None:
            self.res["unrealisable"] += 1
            self.res["discharged"] += 1
            return
        self._triage(mr, what)

    def path_exhausted(self, ex):
        self.res["exhausted"] += 1
        if self.scenario is None:
            self.res["errors"].append(f"budget exhausted before the scenario was set: {ex}")
            return
        what = f"unwinding bound exceeded: {ex}"
        self.res["obligations"] += 1
        mr = self._solve_realisable([])
        if mr is None:
            self.res["unrealisable"] += 1
            self.res["discharged"] += 1
            return
        self._triage(mr, what)

    # ---- witnesses --------------------------------------------------------------------------------------
    def witness(self, force=False):
        """Validate the encoding on this path: solve the path condition, build the image, run the real code,
        compare with the oracle evaluated on the concrete image."""
        if self.scenario is None:
            return
        if not force:
            if self.res["witnesses"] >= self.max_witnesses:
                return
            if (self.path_no != 1 or self.cfg.get("_prefix")) and (self.path_no + self.seed) % self.witness_stride != 0:
                return
        wide = list(getattr(self.scenario, "wide", [])) if self.cfg.get("wide") else []
        try:
            m = None
            if wide and self.res.get("wide_witnesses", 0) < 3:
                # C13: prefer an image whose tables and data sit beyond 2^40 bytes / 2^32 sectors
                m = self._solve_realisable(wide)
                if m is not None:
                    self.res["wide_witnesses"] = self.res.get("wide_witnesses", 0) + 1
            if m is None:
                m = self._solve_realisable([])
        except Inconclusive:
            self.res["notes"].append("witness skipped: solver timeout")
            return
        if m is None:
            return
        try:
            desc = self._describe(m, "witness")
        except replay.Unrealisable:
            self.res["unrealisable"] += 1
            return
        verdict, detail = self._run(desc, in_process=True)
        if verdict == "ok":
            self.res["witnesses"] += 1
            if len(self.res["samples"]) < 3:
                self.res["samples"].append(dict(cfg=desc["cfg"], vars=desc.get("vars"), call=desc.get("call"),
                                                expect_len=desc["expect"].get("len"), outcome="real code == oracle"))
        elif verdict == "violation":
            # the real code disagrees with the specification oracle on a concrete well-formed image
            verdict2, detail2 = self._run(desc, in_process=False)
            if verdict2 == "violation":
                regions = self._regions()
                inside = []
                for k, r in regions:
                    rv = r if isinstance(r, bool) else z3.is_true(m.eval(r.bv, model_completion=True))
                    if rv:
                        inside.append(k)
                if inside:
                    for k in inside:
                        if k["id"] not in self.res["known"]:
                            self.res["known"].append(k["id"])
                    return
                path = self._save(desc, "witness")
                self.res["violations"].append(dict(what="real code differs from the oracle on a solver-generated "
                                                        "witness image", replay=path, detail=detail2,
                                                   vars=desc.get("vars")))
                if len(self.res["violations"]) >= self.max_violations:
                    self.E.stop = True
            else:
                self.res["witness_failures"].append(f"in-process {detail} / subprocess {verdict2} {detail2}")
        elif "replay too large" in detail:
            self.res["notes"].append("witness skipped: image too large to replay")
        else:
            self.res["witness_failures"].append(detail)

    # ---- driving ----------------------------------------------------------------------------------------
    def run(self, body, cov_files=()):
        from symx.loader import Coverage

        cov = Coverage(cov_files) if cov_files else None

        def on_path(outcome):
            kind, payload = outcome
            if kind == "raise":
                self.path_raised(payload)
            elif kind == "exhausted":
                self.path_exhausted(payload)

        try:
            if cov:
                cov.start()
            try:
                self.E.split_depth = int(self.cfg.get("_split", 0))
                self.E.explore(lambda E: body(E, self), on_path=on_path, forced_prefix=self.cfg.get("_prefix"))
            finally:
                if cov:
                    cov.stop()
        except Unsupported as ex:
            self.res["inconclusive"].append(f"unsupported: {ex} @ {_where(ex)}")
        except Inconclusive as ex:
            self.res["inconclusive"].append(f"solver: {ex}")
        except Exception as ex:  # noqa: BLE001
            self.res["errors"].append(f"harness crashed: {type(ex).__name__}: {ex}\n{traceback.format_exc()[-1500:]}")
        st = self.E.stats
        self.res.update(paths=st["paths"], feasible_paths=st["feasible_paths"], decisions=st["decisions"],
                        solver_s=round(st["int_s"] + st["bv_s"], 2), int_checks=st["int_checks"],
                        bv_checks=st["bv_checks"], wall_s=round(time.time() - self.t0, 2), int_s=round(st["int_s"], 2),
                        bv_s=round(st["bv_s"], 2), int_decides=st.get("int_decides", 0))
        self.res["pending"] = list(getattr(self.E, "pending", []))
        if self.cfg.get("wide") and not self.cfg.get("_split") and self.res["witnesses"] and not self.res.get("wide_witnesses"):
            self.res["notes"].append("no witness with wide offsets was replayed in this task")
        if cov:
            self.res["funcs"] = sorted(cov.funcs)
            self.res["lines"] = sorted(cov.lines)
        return self.res


def _where(ex):
    tb = ex.__traceback__
    frames = []
    while tb:
        fn = tb.tb_frame.f_code.co_filename
        if "/repo/" in fn or "site-packages/dissect" in fn:
            frames.append(f"{fn.rsplit('/', 1)[-1]}:{tb.tb_lineno}")
        tb = tb.tb_next
    return frames[-1] if frames else "?"


def byte_obligation(res, j, explen, spec_val, extra=(), maxlen=None):
    """Case split of 'the result differs from the specification': the length differs, or for some segment k
    byte j lies in segment k and differs. j/explen/spec_val: SymInt/int. Returns a list of SymBool/bool cases."""
    from symx.sbytes import SymBytes

    res = SymBytes.lift(res)
    cases = []
    pos = 0
    inrange = core.sym_and(j >= 0, j < explen)
    for s in res.segs:
        v = res._seg_byte(s, j - pos)
        cases.append(core.sym_and(inrange, j >= pos, j < pos + s.length, v != spec_val))
        pos = pos + s.length
    if maxlen is None:
        cases.insert(0, pos != explen)
    else:
        # back-end contract for requests that run past the end of the disk: at least the bytes up to the end,
        # at most the requested length
        cases.insert(0, core.sym_or(pos < explen, pos > maxlen))
    cases.extend(extra)
    return [c for c in cases if c is not False]


# ---- helpers shared by the read-path harnesses ------------------------------------------------------------

def sample_positions(rng, total, unit, model_j=None, extra_units=()):
    js = {0, total - 1}
    if model_j is not None and 0 <= model_j < total:
        js.add(model_j)
    for u in (unit,) + tuple(extra_units):
        k = u
        n = 0
        while k < total and n < 24:
            js.update({k - 1, k})
            k += u
            n += 1
    for _ in range(24):
        js.add(rng.randrange(total))
    return sorted(j for j in js if 0 <= j < total)


def generic_in_process(desc):
    """Run a replay description on the real code inside this process (fast path for witnesses)."""
    from symx import replay_entries, replay_runner  # noqa: F401

    fs = {k: replay_entries.mkfile(v, name=v.get("name")) for k, v in desc["files"].items()}
    op = {k: replay_entries.mkfile(v) for k, v in desc.get("opaque", {}).items()}
    exp = desc["expect"]
    try:
        obj = replay_entries.OPENERS[desc["entry"]](fs, op, desc["params"])
        res = replay_runner.do_call(obj, desc["call"])
    except MemoryError as ex:
        return "error", f"replay too large: {ex}"
    except Exception as ex:  # noqa: BLE001
        if "raises" in exp and (exp["raises"] == "*" or type(ex).__name__ in exp["raises"].split("|")):
            return "ok", "raised as expected"
        return "violation", f"raised {type(ex).__name__}: {ex}"
    if "raises" in exp:
        return "violation", "returned normally"
    if "qcow2_meta" in exp or "snapshots" in exp or "hyperv_tree" in exp:
        return replay.run_replay(desc)
    if "members" in exp:
        ok = [list(x) for x in res] == exp["members"]
        return ("ok", "match") if ok else ("violation", f"members {res} expected {exp['members']}")
    if exp.get("assembly"):
        got, want, size_ok = res
        ok = size_ok and got[: len(want)] == want and len(got) >= len(want)
        return ("ok", "match") if ok else ("violation", f"assembled read: {len(got)} bytes, expected {len(want)}")
    if "len" in exp and len(res) != exp["len"]:
        return "violation", f"length {len(res)} != {exp['len']}"
    if "min_len" in exp and not (exp["min_len"] <= len(res) <= exp["max_len"]):
        return "violation", f"length {len(res)} outside [{exp['min_len']}, {exp['max_len']}]"
    for j, v in exp.get("bytes", []):
        if j >= len(res) or res[j] != v:
            return "violation", f"byte {j}: {res[j] if j < len(res) else None} != {v}"
    return "ok", "match"


def files_desc(model, apps, seed, names=("img",), size=1 << 70, labels=None, sizes=None):
    pat = replay.patches_from_apps(model, apps)
    out = {}
    for i, n in enumerate(names):
        out[n] = dict(size=sizes[n](model) if sizes and n in sizes else size, seed=(seed & 0xFFFF) + 101 * i,
                      patches=[[a, b.hex()] for a, b in sorted(pat.get(n, {}).items())])
        if labels and n in labels:
            out[n]["name"] = labels[n]
    return out


def read_scenario(ctx, E, vars_, *, entry, params, call, total, g0, spec_at, unit, rng, names=("img",), opaque=(),
                  prefer=(), extra=(), need=(), j=None, extra_units=(), post_files=None, sizes=None, opaque_sizes=None,
                  maxlen=None):
    """Scenario for a read request.
    params/call/total/g0: callables(model) -> JSON value / int;
    spec_at(model, g:int, mems, opaques) -> int: the oracle evaluated concretely on the image."""
    from oracles.mem import ConcMem

    seed = ctx.seed

    def build(model):
        fd = files_desc(model, E.apps, seed, names, sizes=sizes)
        d = dict(entry=entry, params=params(model), files=fd, call=call(model))
        if opaque:
            d["opaque"] = {n: dict(size=opaque_sizes[n](model) if opaque_sizes and n in opaque_sizes else 1 << 70,
                                   seed=(seed & 0xFFFF) + 977 + 13 * i) for i, n in enumerate(opaque)}
        if post_files:
            post_files(model, d)
        return d

    def expect(model, desc):
        from symx import replay_entries

        fe = desc.pop("_fault_expect", None)
        if fe is not None:
            desc.pop("_inflate", None)
            return fe
        infl = desc.pop("_inflate", None)
        mems = {k: ConcMem(replay_entries.mkfile(v), inflate=infl) for k, v in desc["files"].items()}
        ops = {k: ConcMem(replay_entries.mkfile(v)) for k, v in desc.get("opaque", {}).items()}
        tot = total(model)
        mj = None
        if j is not None:
            try:
                mj = mi(model, j)
            except Exception:  # noqa: BLE001
                mj = None
        base = g0(model)
        out = []
        for jj in sample_positions(rng, tot, unit, mj, extra_units) if tot > 0 else []:
            out.append([jj, int(spec_at(model, base + jj, mems, ops))])
        if maxlen is not None:
            return dict(min_len=tot, max_len=maxlen(model), bytes=out)
        return dict(len=tot, bytes=out)

    return Scenario(vars_, build, expect, extra=list(extra), prefer=list(prefer), need=list(need))


def mi(model, x):
    """model value of an int-like (SymInt / int / z3 BV term)"""
    if isinstance(x, (bool, int)):
        return int(x)
    if isinstance(x, (core.SymInt, core.SymBool)):
        v = replay.model_int(model, core.bv(x))
        if isinstance(x, core.SymInt) and x.lo < 0:
            W = core.S.W
            if isinstance(v, int) and v >= (1 << (W - 1)):
                v -= 1 << W
        return v
    return replay.model_int(model, x)


def io_cases(reads, bound_bytes, bound_calls):
    """C13: the bytes and calls the reader issued to the file are bounded by a function of the header fields and the
    request only. reads: list of (position, length) recorded by the symbolic file."""
    total = 0
    for _, ln in reads:
        total = total + ln
    return [total > bound_bytes, len(reads) > bound_calls]

def fault_finish(ctx, E, res, length, unit, zlog=None, unit_bytes=None):
    """C11 obligations on a path that returned: bounded output, bounded inflate."""
    from symx.sbytes import SymBytes

    r = SymBytes.lift(res)
    bad = [r.length() > length + unit]
    for key in (zlog or []):
        mx = key[4]
        if isinstance(mx, int) and mx == 0:
            bad.append(True)  # decompression without an output bound
        else:
            bad.append(mx > unit_bytes)
    ctx.obligation(bad, "unbounded output or decompression on malformed input")


def fault_mode(ctx):
    """In fault mode an exception is an acceptable outcome (the property asks for 'returns or raises')."""
    def ok(ex):
        from symx.files import MonitorViolation

        ctx.res["obligations"] += 1
        if isinstance(ex, (MonitorViolation, RecursionError, MemoryError)):
            ctx.res["errors"].append(f"fault mode: {type(ex).__name__}: {ex}")
        else:
            ctx.res["discharged"] += 1
    ctx.raises_ok = ok

"""Shared machinery for harnesses: per-path bookkeeping, obligations, counterexample triage (replay on the
real code, known-finding regions), witness validation, result records."""
from __future__ import annotations

import json
import os
import time
import traceback

import z3

from symx import core, files, replay
from symx.core import Engine, Inconclusive, Unsupported, bvval

VERIF = os.path.dirname(os.path.dirname(os.path.abspath(__file__)))
REPLAYS = os.path.join(VERIF, "replays")
KNOWN_FILE = os.path.join(VERIF, "known_findings.json")

Z3NS = {k: getattr(z3, k) for k in ("URem", "UDiv", "ULT", "ULE", "UGT", "UGE", "LShR", "And", "Or", "Not", "If",
                                       "Extract", "ZeroExt", "BoolVal")}


def load_known(prop):
    try:
        with open(KNOWN_FILE) as fh:
            data = json.load(fh)
    except FileNotFoundError:
        return []
    return [k for k in data.get("findings", []) if k.get("property") == prop and k.get("status", "open") == "open"]


class Scenario:
    """What a path needs in order to turn a model into a run of the real code.

    vars:    name -> BV term (reported in samples, usable in known-finding regions)
    build:   model -> replay description (without 'expect')
    expect:  (model, desc) -> expectation dict computed from the oracle on the concrete image
    extra:   list of BV constraints that make a model realisable/replayable (sizes small enough etc.)
    """

    def __init__(self, vars, build, expect, extra=(), prefer=()):
        self.vars, self.build, self.expect = vars, build, expect
        self.extra = list(extra)    # hard realisability constraints
        self.prefer = list(prefer)  # soft: keep the image small enough to replay quickly


class TaskResult(dict):
    def __init__(self, prop, harness, cfg):
        super().__init__(property=prop, harness=harness, cfg=cfg, paths=0, feasible_paths=0, decisions=0,
                         obligations=0, discharged=0, violations=[], known=[], witnesses=0, witness_failures=[],
                         unrealisable=0, inconclusive=[], errors=[], solver_s=0.0, int_checks=0, bv_checks=0,
                         samples=[], funcs=[], lines=[], wall_s=0.0, exceptions={}, exhausted=0, notes=[])


class Ctx:
    """Per-task context handed to the harness body."""

    def __init__(self, prop, harness, cfg, tier, seed, engine_kw=None):
        self.prop, self.harness, self.cfg, self.tier, self.seed = prop, harness, cfg, tier, seed
        self.known = [k for k in load_known(prop) if k.get("harness") in (None, harness)]
        self.res = TaskResult(prop, harness, cfg)
        self.E = Engine(name=f"{prop}:{harness}", **(engine_kw or {}))
        self.E.path_hooks.append(self._reset)
        self.scenario = None
        self.path_no = 0
        self.witness_stride = 1 if tier == "thorough" else int(cfg.get("witness_stride", 6))
        self.max_witnesses = cfg.get("max_witnesses", 400 if tier == "thorough" else 12)
        self.replay_in_process = None  # callable(desc) -> (verdict, detail) for fast witness runs
        self.t0 = time.time()

    def _reset(self):
        self.E.apps = []
        self.E.linked = set()
        self.E.views = {}
        self.E.monitor = []
        self.E.pins = dict(self.cfg.get("pins", {}))
        self.scenario = None
        self.path_no += 1

    # ---- known-finding regions -------------------------------------------------------------------------
    def _regions(self):
        out = []
        sc = self.scenario
        for k in self.known:
            when = k.get("when", {})
            if any(self.cfg.get(a) != b for a, b in when.items()):
                continue
            ns = dict(Z3NS)
            ns.update(sc.vars if sc else {})
            ns["V"] = bvval
            ns["cfg"] = self.cfg
            try:
                out.append((k, eval(k["region"], {"__builtins__": {}}, ns)))  # noqa: S307 - committed file
            except Exception as ex:  # noqa: BLE001
                self.res["errors"].append(f"known finding {k.get('id')}: region not evaluable here: {ex}")
        return out

    # ---- replay helpers ---------------------------------------------------------------------------------
    def _solve_realisable(self, *cons):
        sc = self.scenario
        extra = list(sc.extra) if sc else []
        try:
            extra += replay.no_partial_overlap(self.E.apps)
        except Exception as ex:  # noqa: BLE001
            self.res["notes"].append(f"overlap constraints skipped: {ex}")
        if sc and sc.prefer:
            try:
                m = self.E.bv_solve(*cons, *extra, *sc.prefer)
            except Inconclusive:
                m = None
            if m is not None:
                return m
        return self.E.bv_solve(*cons, *extra)

    def _describe(self, model, why):
        sc = self.scenario
        desc = sc.build(model)
        desc["property"] = self.prop
        desc["harness"] = self.harness
        desc["cfg"] = {k: v for k, v in self.cfg.items() if isinstance(v, (int, str, bool, float, type(None)))}
        desc["why"] = why
        desc["expect"] = sc.expect(model, desc)
        desc["vars"] = {}
        for k, t in sc.vars.items():
            try:
                desc["vars"][k] = replay.model_int(model, t)
            except Exception:  # noqa: BLE001
                pass
        return desc

    def _save(self, desc, tag):
        os.makedirs(REPLAYS, exist_ok=True)
        name = f"{self.prop}_{self.harness}_{tag}_{os.getpid()}_{self.path_no}.json"
        path = os.path.join(REPLAYS, name)
        with open(path, "w") as fh:
            json.dump(desc, fh)
        return path

    def _run(self, desc, in_process):
        if in_process and self.replay_in_process is not None:
            try:
                return self.replay_in_process(desc)
            except Exception as ex:  # noqa: BLE001
                return "error", f"{type(ex).__name__}: {ex}\n{traceback.format_exc()[-800:]}"
        return replay.run_replay(desc)

    # ---- obligations ------------------------------------------------------------------------------------
    def obligation(self, bad, what):
        """`bad` (BV-side Bool term) must be unsatisfiable together with the path condition."""
        self.res["obligations"] += 1
        regions = self._regions()
        neg = [z3.Not(r) for _, r in regions]
        m = self.E.bv_solve(bad, *neg)
        if m is None:
            if regions and self.E.bv_solve(bad) is not None:
                # every counterexample lies inside listed regions
                hit = [k for k, r in regions if self.E.bv_solve(bad, r) is not None]
                for k in hit:
                    if k["id"] not in self.res["known"]:
                        self.res["known"].append(k["id"])
                self.res["discharged"] += 1
                return True
            self.res["discharged"] += 1
            return True
        # a counterexample outside every known region: make it realisable and replay it on the real code
        try:
            mr = self._solve_realisable(bad, *neg)
        except Inconclusive:
            mr = None
        if mr is None:
            self.res["unrealisable"] += 1
            self.res["notes"].append(f"{what}: counterexample exists only for overlapping/unreplayable layouts")
            self.res["discharged"] += 1
            return True
        self._triage(mr, what)
        return False

    def _triage(self, model, what, expect_override=None):
        try:
            desc = self._describe(model, what)
            if expect_override:
                desc["expect"] = expect_override
        except replay.Unrealisable as ex:
            self.res["unrealisable"] += 1
            self.res["notes"].append(f"{what}: model not realisable ({ex})")
            return
        verdict, detail = self._run(desc, in_process=False)
        if verdict == "violation":
            path = self._save(desc, "cex")
            self.res["violations"].append(dict(what=what, replay=path, detail=detail, vars=desc.get("vars")))
        elif verdict == "ok":
            path = self._save(desc, "nonrepro")
            self.res["errors"].append(f"{what}: solver counterexample does not reproduce on the real code "
                                      f"(encoding/stub problem) replay={path} {detail}")
        else:
            path = self._save(desc, "replayerr")
            self.res["errors"].append(f"{what}: replay failed to run: {detail} replay={path}")

    def path_raised(self, ex):
        """A feasible path inside the precondition ended in an exception: candidate violation of 'the read returns'."""
        name = type(ex).__name__
        self.res["exceptions"][name] = self.res["exceptions"].get(name, 0) + 1
        if self.scenario is None:
            self.res["errors"].append(f"exception before the scenario was set: {name}: {ex}")
            return
        what = f"raises {name}: {str(ex)[:120]}"
        self.res["obligations"] += 1
        regions = self._regions()
        neg = [z3.Not(r) for _, r in regions]
        m = self.E.bv_solve(*neg) if neg else True
        if m is None:
            for k, r in regions:
                if self.E.bv_solve(r) is not None and k["id"] not in self.res["known"]:
                    self.res["known"].append(k["id"])
            self.res["discharged"] += 1
            return
        try:
            mr = self._solve_realisable(*neg)
        except Inconclusive:
            mr = None
        if mr is None:
            self.res["unrealisable"] += 1
            self.res["discharged"] += 1
            return
        self._triage(mr, what)

    def path_exhausted(self, ex):
        self.res["exhausted"] += 1
        if self.scenario is None:
            self.res["errors"].append(f"budget exhausted before the scenario was set: {ex}")
            return
        what = f"unwinding bound exceeded: {ex}"
        self.res["obligations"] += 1
        mr = self._solve_realisable()
        if mr is None:
            self.res["unrealisable"] += 1
            self.res["discharged"] += 1
            return
        self._triage(mr, what)

    # ---- witnesses --------------------------------------------------------------------------------------
    def witness(self, force=False):
        """Validate the encoding on this path: solve the path condition, build the image, run the real code,
        compare with the oracle evaluated on the concrete image."""
        if self.scenario is None:
            return
        if not force:
            if self.res["witnesses"] >= self.max_witnesses:
                return
            if self.path_no != 1 and (self.path_no + self.seed) % self.witness_stride != 0:
                return
        try:
            m = self._solve_realisable()
        except Inconclusive:
            return
        if m is None:
            return
        try:
            desc = self._describe(m, "witness")
        except replay.Unrealisable:
            self.res["unrealisable"] += 1
            return
        verdict, detail = self._run(desc, in_process=True)
        if verdict == "ok":
            self.res["witnesses"] += 1
            if len(self.res["samples"]) < 3:
                self.res["samples"].append(dict(cfg=desc["cfg"], vars=desc.get("vars"), call=desc.get("call"),
                                                expect_len=desc["expect"].get("len"), outcome="real code == oracle"))
        elif verdict == "violation":
            # the real code disagrees with the specification oracle on a concrete well-formed image
            verdict2, detail2 = self._run(desc, in_process=False)
            if verdict2 == "violation":
                regions = self._regions()
                inside = [k for k, r in regions if z3.is_true(m.eval(r, model_completion=True))]
                if inside:
                    for k in inside:
                        if k["id"] not in self.res["known"]:
                            self.res["known"].append(k["id"])
                    return
                path = self._save(desc, "witness")
                self.res["violations"].append(dict(what="real code differs from the oracle on a solver-generated "
                                                        "witness image", replay=path, detail=detail2,
                                                   vars=desc.get("vars")))
            else:
                self.res["witness_failures"].append(f"in-process {detail} / subprocess {verdict2} {detail2}")
        elif "replay too large" in detail:
            self.res["notes"].append("witness skipped: image too large to replay")
        else:
            self.res["witness_failures"].append(detail)

    # ---- driving ----------------------------------------------------------------------------------------
    def run(self, body, cov_files=()):
        from symx.loader import Coverage

        cov = Coverage(cov_files) if cov_files else None

        def on_path(outcome):
            kind, payload = outcome
            if kind == "raise":
                self.path_raised(payload)
            elif kind == "exhausted":
                self.path_exhausted(payload)

        try:
            if cov:
                cov.start()
            try:
                self.E.explore(lambda E: body(E, self), on_path=on_path)
            finally:
                if cov:
                    cov.stop()
        except Unsupported as ex:
            self.res["inconclusive"].append(f"unsupported: {ex} @ {_where(ex)}")
        except Inconclusive as ex:
            self.res["inconclusive"].append(f"solver: {ex}")
        except Exception as ex:  # noqa: BLE001
            self.res["errors"].append(f"harness crashed: {type(ex).__name__}: {ex}\n{traceback.format_exc()[-1500:]}")
        st = self.E.stats
        self.res.update(paths=st["paths"], feasible_paths=st["feasible_paths"], decisions=st["decisions"],
                        solver_s=round(st["int_s"] + st["bv_s"], 2), int_checks=st["int_checks"],
                        bv_checks=st["bv_checks"], wall_s=round(time.time() - self.t0, 2), int_s=round(st["int_s"], 2),
                        bv_s=round(st["bv_s"], 2))
        if cov:
            self.res["funcs"] = sorted(cov.funcs)
            self.res["lines"] = sorted(cov.lines)
        return self.res


def _where(ex):
    tb = ex.__traceback__
    frames = []
    while tb:
        fn = tb.tb_frame.f_code.co_filename
        if "/repo/" in fn or "site-packages/dissect" in fn:
            frames.append(f"{fn.rsplit('/', 1)[-1]}:{tb.tb_lineno}")
        tb = tb.tb_next
    return frames[-1] if frames else "?"


def byte_obligation(res, j, explen_bv, spec_val):
    """bad := length differs, or byte j (< expected length) differs."""
    from symx.sbytes import SymBytes

    res = SymBytes.lift(res)
    impl_val, total = res.byte_term(j)
    return z3.Or(total != explen_bv, z3.And(j >= bvval(0), j < explen_bv, impl_val != spec_val))


# ---- helpers shared by the read-path harnesses ------------------------------------------------------------

def sample_positions(rng, total, unit, model_j=None, extra_units=()):
    js = {0, total - 1}
    if model_j is not None and 0 <= model_j < total:
        js.add(model_j)
    for u in (unit,) + tuple(extra_units):
        k = u
        n = 0
        while k < total and n < 24:
            js.update({k - 1, k})
            k += u
            n += 1
    for _ in range(24):
        js.add(rng.randrange(total))
    return sorted(j for j in js if 0 <= j < total)


def generic_in_process(desc):
    """Run a replay description on the real code inside this process (fast path for witnesses)."""
    from symx import replay_entries, replay_runner  # noqa: F401

    fs = {k: replay_runner.mkfile(v, name=v.get("name")) for k, v in desc["files"].items()}
    op = {k: replay_runner.mkfile(v) for k, v in desc.get("opaque", {}).items()}
    exp = desc["expect"]
    try:
        obj = replay_runner.OPENERS[desc["entry"]](fs, op, desc["params"])
        res = replay_runner.do_call(obj, desc["call"])
    except MemoryError as ex:
        return "error", f"replay too large: {ex}"
    except Exception as ex:  # noqa: BLE001
        if "raises" in exp and (exp["raises"] == "*" or type(ex).__name__ in exp["raises"].split("|")):
            return "ok", "raised as expected"
        return "violation", f"raised {type(ex).__name__}: {ex}"
    if "raises" in exp:
        return "violation", "returned normally"
    if "len" in exp and len(res) != exp["len"]:
        return "violation", f"length {len(res)} != {exp['len']}"
    for j, v in exp.get("bytes", []):
        if j >= len(res) or res[j] != v:
            return "violation", f"byte {j}: {res[j] if j < len(res) else None} != {v}"
    return "ok", "match"


def files_desc(model, apps, seed, names=("img",), size=1 << 70, labels=None, sizes=None):
    pat = replay.patches_from_apps(model, apps)
    out = {}
    for i, n in enumerate(names):
        out[n] = dict(size=sizes[n](model) if sizes and n in sizes else size, seed=(seed & 0xFFFF) + 101 * i,
                      patches=[[a, b.hex()] for a, b in sorted(pat.get(n, {}).items())])
        if labels and n in labels:
            out[n]["name"] = labels[n]
    return out


def read_scenario(ctx, E, vars_, *, entry, params, call, total, g0, spec_at, unit, rng, names=("img",), opaque=(),
                  prefer=(), j=None, extra_units=(), post_files=None, sizes=None):
    """Scenario for a read request.
    params/call/total/g0: callables(model) -> JSON value / int; spec_at(model, g:int, env) -> z3 BV8 term with concrete g."""
    seed = ctx.seed

    def build(model):
        fd = files_desc(model, E.apps, seed, names, sizes=sizes)
        if post_files:
            post_files(model, fd)
        d = dict(entry=entry, params=params(model), files=fd, call=call(model))
        if opaque:
            d["opaque"] = {n: dict(size=1 << 70, seed=(seed & 0xFFFF) + 977 + 13 * i) for i, n in enumerate(opaque)}
        return d

    def expect(model, desc):
        from symx import replay_runner

        fs = {k: replay_runner.mkfile(v) for k, v in desc["files"].items()}
        op = {k: replay_runner.mkfile(v) for k, v in desc.get("opaque", {}).items()}
        env = replay.ConcreteEnv({}, fs, op, inflate=desc.get("_inflate_fns", {}))
        tot = total(model)
        mj = None
        if j is not None:
            try:
                mj = replay.model_int(model, j)
            except Exception:  # noqa: BLE001
                mj = None
        base = g0(model)
        out = []
        for jj in sample_positions(rng, tot, unit, mj, extra_units) if tot > 0 else []:
            out.append([jj, replay.ceval(spec_at(model, base + jj, env), env)])
        desc.pop("_inflate_fns", None)
        return dict(len=tot, bytes=out)

    return Scenario(vars_, build, expect, prefer=list(prefer))


def mi(model, x):
    """model value of an int-like (SymInt / int)"""
    if isinstance(x, int):
        return x
    return replay.model_int(model, core.bv(x))

"""C06 - Parallels HDS / plain: every byte range reads as the guest-visible content."""
from __future__ import annotations

from harness import hds

META = dict(
    level="model_checking",
    bounds="format v1 ('WithoutFreeSpace', BAT in sectors) and v2 ('WithouFreSpacExt', BAT in clusters); sectors per "
           "cluster enumerated {8, 256, 2048, 2047} (quick: {8, 2048} for v1, {256, 2047} for v2); request <= N clusters "
           "(quick 2, thorough 3) from any 512-aligned offset; BAT length, disk size, every BAT word and the request symbolic",
    outside=["requests longer than N clusters", "DiskDescriptor.xml parsing (expat)", "format extension blocks"],
    assumptions=["dissect.cstruct layouts as learned from the real parser each run",
                 "well-formed: signature, BAT covers the disk, request 512-aligned and inside the disk"],
    must_reach=[(hds.SRC, r"result\.append\(b\"|result\.append\(self\.fh\.read\(read_size\)\)")],
)


def tasks(tier):
    out = []
    if tier == "quick":
        combos = [(1, 8), (1, 2048), (2, 256), (2, 2047)]
        n = 2
    else:
        combos = [(v, t) for v in (1, 2) for t in (8, 256, 2048, 2047)]
        n = 3
    for v, t in combos:
        out.append(("read", dict(version=v, tracks=t, n_clusters=n)))
    return out


def run(hname, cfg, tier, seed):
    return hds.read_task("C06", cfg, tier, seed)

"""C06 - Parallels HDS / plain: every byte range reads as the guest-visible content."""
from __future__ import annotations

from harness import hds

META = dict(
    level="model_checking",
    bounds="format v1 ('WithoutFreeSpace', BAT in sectors) and v2 ('WithouFreSpacExt', BAT in clusters); sectors per "
           "cluster enumerated {8, 256, 2048, 2047} (quick: {8, 2048} for v1, {256, 2047} for v2); request <= N clusters "
           "(quick 2, thorough 3) from any 512-aligned offset; BAT length, disk size, every BAT word and the request symbolic",
    outside=["requests longer than N clusters", "DiskDescriptor.xml parsing (expat)", "format extension blocks"],
    assumptions=["dissect.cstruct layouts as learned from the real parser each run",
                 "well-formed: signature, BAT covers the disk, request 512-aligned and inside the disk"],
    must_reach=[(hds.SRC, r"result\.append\(b\"|result\.append\(self\.fh\.read\(read_size\)\)")],
)


SPLIT_DEPTH = 10


def tasks(tier):
    out = []
    if tier == "quick":
        combos = [(1, 8), (1, 2048), (2, 256), (2, 2047)]
        n = 2
    else:
        combos = [(v, t) for v in (1, 2) for t in (8, 256, 2048, 2047)]
        n = 3
    for v, t in combos:
        out.append(("read", dict(version=v, tracks=t, n_clusters=n)))
    return out


def run(hname, cfg, tier, seed):
    return hds.read_task("C06", cfg, tier, seed)


def precheck(tier, seed):
    import glob
    import io

    from dissect.hypervisor.disk.hdd import HDS
    from harness import fixtures
    from oracles import hds as spec

    errors, traces = [], 0
    files = sorted(glob.glob(f"{fixtures.DATA}/expanding.hdd/*.hds.gz") + glob.glob(f"{fixtures.DATA}/split.hdd/*.hds.gz"))
    for path in files[:4]:
        rel = path[len(fixtures.DATA) + 1:]
        data = fixtures.load_gz(rel)
        if data[:16] not in (spec.SIG_V1, spec.SIG_V2):
            continue
        obj = HDS(io.BytesIO(data))
        mem = fixtures.mem_of(data)
        version = 1 if data[:16] == spec.SIG_V1 else 2
        tracks = int.from_bytes(data[28:32], "little")

        def real(off, ln, obj=obj):
            obj.seek(off)
            return obj.read(ln)

        traces += fixtures.compare(rel, real, lambda g: spec.guest_byte(g, version, tracks, mem), obj.size, (tracks * 512,),
                                   seed, errors)
    return dict(errors=errors, traces=traces, summary=f"oracle == real reader on {len(files[:4])} HDS files of tests/data")

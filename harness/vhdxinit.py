"""Real VHDX.__init__ (file identifier, header pair, region table, metadata table, items) on a symbolic container:
C12 gates (signatures, required regions/items, parent locator type) and C14 metadata (active header, size, block size,
sector size, disk id, has_parent)."""
from __future__ import annotations

import uuid as real_uuid

from harness.common import Ctx, Scenario, files_desc, mi
from harness.gates import _finish, _gate_ctx
from symx import core, files, layouts, loader
from symx.files import SymFile
from symx.sbytes import SymBytes

SRC = loader.repo_path("dissect/hypervisor/disk/vhdx.py")
KB64 = 64 * 1024


class SymGuid:
    """UUID(bytes_le=<symbolic 16 bytes>): compares with real UUIDs byte-wise."""

    def __init__(self, data):
        self.data = SymBytes.lift(data)

    def __eq__(self, o):
        if isinstance(o, real_uuid.UUID):
            return self.data == o.bytes_le
        if isinstance(o, SymGuid):
            return self.data.structurally_equal(o.data) if o is not self else True
        return False

    def __ne__(self, o):
        return core.sym_not(self.__eq__(o))

    def __hash__(self):
        return 0

    def __format__(self, spec):
        return "<symguid>"

    __str__ = __repr__ = lambda self: "<symguid>"


def _uuid_stub(*a, **kw):
    if "bytes_le" in kw and not isinstance(kw["bytes_le"], (bytes, bytearray)):
        return SymGuid(kw["bytes_le"])
    return real_uuid.UUID(*a, **kw)


def load():
    m = loader.load(SRC)
    m.lru_cache = loader.identity_lru_cache
    proxy = layouts.CStructProxy(m.c_vhdx)
    m.c_vhdx = proxy
    m.UUID = _uuid_stub
    if hasattr(m, "io"):
        # a version of the module that buffers through io.BytesIO gets the same stand-in as the envelope harness
        import types

        from harness.gates import _Buf

        m.io = types.SimpleNamespace(BytesIO=_Buf, SEEK_END=2, SEEK_SET=0, SEEK_CUR=1)
    # objects captured at class-creation time
    m.MetadataTable.METADATA_MAP = loader.SymDict({k: (proxy.wrap(v) if not isinstance(v, type) or v.__module__ != m.__name__ else v)
                                                   for k, v in m.MetadataTable.METADATA_MAP.items()})
    return m


def container_task(prop, cfg, tier, seed):
    """cfg: n_regions (<= 2), n_items (<= 5), parent (bool: explore has_parent images)"""
    nreg, nit = cfg.get("n_regions", 2), cfg.get("n_items", 4)
    core.set_width(72)
    m = load()
    ctx = _gate_ctx(prop, "vhdx.container", cfg, tier, seed)
    G = {k: getattr(m, k) for k in ("BAT_REGION_GUID", "METADATA_REGION_GUID", "FILE_PARAMETERS_GUID", "VIRTUAL_DISK_SIZE_GUID",
                                    "VIRTUAL_DISK_ID_GUID", "LOGICAL_SECTOR_SIZE_GUID", "PHYSICAL_SECTOR_SIZE_GUID",
                                    "PARENT_LOCATOR_GUID", "VHDX_PARENT_LOCATOR_GUID")}

    def guid_is(addr, g):
        return core.sym_and(*[files.byte_at("img", addr + k) == c for k, c in enumerate(g.bytes_le)])

    def body(E, ctx):
        E.structural_bytes_eq = True
        E.link_symbolic = True
        fh = SymFile("img")
        w = lambda a, n: files.word_at("img", a, n, "le")
        sig = lambda a, s: core.sym_and(*[files.byte_at("img", a + k) == c for k, c in enumerate(s)])
        seq1, seq2 = w(KB64 + 8, 8), w(2 * KB64 + 8, 8)
        # bounds on table sizes
        n_r = [E.assume_range(w(3 * KB64 + 8, 4), 0, nreg), E.assume_range(w(4 * KB64 + 8, 4), 0, nreg)]
        # the metadata region is where region table 1 says; pin its position for the bound on items
        meta_off = 0x200000
        regions = []
        for k in range(nreg):
            e = 3 * KB64 + 16 + 32 * k
            regions.append(dict(addr=e, off=w(e + 16, 8), ln=w(e + 24, 4)))
            E.assume(core.sym_or(core.sym_not(guid_is(e, G["METADATA_REGION_GUID"])), regions[-1]["off"] == meta_off))
            E.assume(regions[-1]["off"] <= 1 << 40)
        n_i = E.assume_range(w(meta_off + 10, 2), 0, nit)
        items = []
        for k in range(nit):
            e = meta_off + 32 + 32 * k
            io = E.assume_range(w(e + 16, 4), 0x10000, 0x20000)
            items.append(dict(addr=e, off=io))
        # bound on the shape of the tables (the GUIDs stay symbolic within these choices): region entry k is the BAT, the
        # metadata region or an unknown region; item k is its canonical item or the (optional) physical sector size item
        canon = [G["FILE_PARAMETERS_GUID"], G["VIRTUAL_DISK_SIZE_GUID"], G["LOGICAL_SECTOR_SIZE_GUID"], G["VIRTUAL_DISK_ID_GUID"],
                 G["PARENT_LOCATOR_GUID"]]
        for k, it in enumerate(items):
            E.assume(core.sym_or(guid_is(it["addr"], canon[k % len(canon)]), guid_is(it["addr"], G["PHYSICAL_SECTOR_SIZE_GUID"])))
        other = real_uuid.UUID(int=0x1234)
        rcanon = [G["BAT_REGION_GUID"], G["METADATA_REGION_GUID"]]
        for k, r in enumerate(regions):
            if cfg.get("regions_canonical"):
                E.assume(core.sym_or(guid_is(r["addr"], rcanon[k % 2]), guid_is(r["addr"], other)))
            else:
                E.assume(core.sym_or(guid_is(r["addr"], G["BAT_REGION_GUID"]), guid_is(r["addr"], G["METADATA_REGION_GUID"]),
                                     guid_is(r["addr"], other)))
        # bound: at most one item deviates from the canonical order, and the second region table (not consulted) is empty
        dev = 0
        for k, it in enumerate(items):
            dev = dev + core.ite(guid_is(it["addr"], canon[k % len(canon)]), 0, 1)
        E.assume(dev <= 1)
        E.assume(n_r[1] == 0)
        # geometry values are enumerated (they act as divisors): wherever the items are stored
        # (item k can only carry canon[k] or the physical-sector-size GUID, so each value is looked at through the view the
        # real code uses for that position: no second view of another width at the same symbolic address)
        def at(g):
            return [it for k, it in enumerate(items) if canon[k % len(canon)] is g]

        for it in at(G["LOGICAL_SECTOR_SIZE_GUID"]):
            E.assume(core.sym_or(core.sym_not(guid_is(it["addr"], G["LOGICAL_SECTOR_SIZE_GUID"])),
                                 w(meta_off + it["off"], 4) == cfg.get("sector_size", 512)))
        for it in at(G["FILE_PARAMETERS_GUID"]):
            E.assume(core.sym_or(core.sym_not(guid_is(it["addr"], G["FILE_PARAMETERS_GUID"])),
                                 w(meta_off + it["off"], 4) == cfg.get("block_size", 1 << 20)))
        for it in at(G["VIRTUAL_DISK_SIZE_GUID"]):
            E.assume(core.sym_or(core.sym_not(guid_is(it["addr"], G["VIRTUAL_DISK_SIZE_GUID"])), w(meta_off + it["off"], 8) <= 1 << 46))
        if cfg.get("parent"):
            for it in at(G["PARENT_LOCATOR_GUID"]):
                # bound: at most one key/value pair in the parent locator
                E.assume(core.sym_or(core.sym_not(guid_is(it["addr"], G["PARENT_LOCATOR_GUID"])),
                                     w(meta_off + it["off"] + 18, 2) <= 1))
        if not cfg.get("parent"):
            # has_parent bit clear wherever file parameters are stored
            for it in at(G["FILE_PARAMETERS_GUID"]):
                E.assume(core.sym_or(core.sym_not(guid_is(it["addr"], G["FILE_PARAMETERS_GUID"])),
                                     (w(meta_off + it["off"] + 4, 4) >> 1) % 2 == 0))
        vars_ = dict(seq1=seq1, seq2=seq2, regions1=n_r[0], regions2=n_r[1], items=n_i)

        def build(model):
            fd = files_desc(model, E.apps, seed, ("img",))
            return dict(entry="vhdx_container", params={}, files=fd, call=["open"])

        ctx.scenario = Scenario(vars_, build, lambda mo, d: dict(returns=True))
        # replay images only: the items' data areas are 8-aligned and pairwise at least 256 bytes apart (in any order)
        for k, it in enumerate(items):
            ctx.scenario.extra += [it["off"] % 8 == 0, it["off"] <= 0x1ff00]
            for it2 in items[:k]:
                ctx.scenario.extra.append(core.sym_or(it["off"] >= it2["off"] + 0x100, it2["off"] >= it["off"] + 0x100))
        if cfg.get("parent"):
            opened = []

            def open_parent(path, locator):
                opened.append(locator)
                return "PARENT"

            m.open_parent = open_parent
            fh.name = "/evidence/child.avhdx"
            m.Path = __import__("pathlib").PurePosixPath
        obj = m.VHDX(fh)
        # ---- accept predicate (C12)
        first = seq1 > seq2
        act = core.ite(first, KB64, 2 * KB64)
        head_ok = core.sym_and(*[files.byte_at("img", act + k) == c for k, c in enumerate(b"head")])

        def find(table, count, stride, first_entry, g):
            """specification lookup: the LAST entry with that GUID wins in a dict built in order; presence = any"""
            hits = [core.sym_and(k < count, guid_is(first_entry + stride * k, g)) for k in range(len(table))]
            return core.sym_or(*hits) if hits else False

        has_meta = find(regions, n_r[0], 32, 3 * KB64 + 16, G["METADATA_REGION_GUID"])
        has_bat = find(regions, n_r[0], 32, 3 * KB64 + 16, G["BAT_REGION_GUID"])
        need_items = [G["VIRTUAL_DISK_SIZE_GUID"], G["FILE_PARAMETERS_GUID"], G["LOGICAL_SECTOR_SIZE_GUID"], G["VIRTUAL_DISK_ID_GUID"]]
        has_items = [find(items, n_i, 32, meta_off + 32, g) for g in need_items]
        accept = core.sym_and(sig(0, b"vhdxfile"), head_ok, sig(3 * KB64, b"regi"), sig(4 * KB64, b"regi"),
                              sig(meta_off, b"metadata"), has_meta, has_bat, *has_items)
        # ---- exposed metadata (C14): the active header and the stored item values
        extra_bad = []
        extra_bad.append(core.sym_not(first) if obj.header is obj.headers[0] else first)

        def item_value_addr(g):
            """address of the item data: offset field of the last entry with GUID g"""
            cand = at(g)
            if len(cand) == 1:
                return meta_off + cand[0]["off"]  # the only position that can carry g within the bounds
            addr = None
            for k, it in enumerate(items):
                if it not in cand:
                    continue
                hit = core.sym_and(k < n_i, guid_is(it["addr"], g))
                addr = core.ite(hit, meta_off + it["off"], addr if addr is not None else 0)
            return addr

        stored = dict(size=w(item_value_addr(G["VIRTUAL_DISK_SIZE_GUID"]), 8),
                      block_size=w(item_value_addr(G["FILE_PARAMETERS_GUID"]), 4),
                      sector_size=w(item_value_addr(G["LOGICAL_SECTOR_SIZE_GUID"]), 4))
        hp = (w(item_value_addr(G["FILE_PARAMETERS_GUID"]) + 4, 4) >> 1) % 2
        extra_bad.append(obj.size != stored["size"])
        extra_bad.append(obj.block_size != stored["block_size"])
        extra_bad.append(obj.sector_size != stored["sector_size"])
        extra_bad.append(obj.has_parent != hp)
        if cfg.get("parent") and bool(obj.has_parent != 0):
            # a differencing disk resolved its parent through open_parent and the locator type is the VHDX one
            extra_bad.append(not (opened and obj.parent == "PARENT"))
        ctx.res["obligations"] += 1
        mm = None
        for b in extra_bad:
            mm = ctx.E.decide_case(b)
            if mm is not None:
                break
        if mm is not None:
            # replay: a realisable image of this path on which the comparison fails; the real constructor must expose the
            # stored values (it does not: the violation reproduces) - a parent image cannot be replayed (no parent file)
            from symx import replay as _rp

            what = "exposed VHDX metadata differs from the stored values"
            try:
                mr = ctx._solve_realisable([b])
                desc = ctx._describe(mr, what) if mr is not None else None
            except (core.Inconclusive, _rp.Unrealisable) as ex:
                mr, desc = None, None
                ctx.res["notes"].append(f"{what}: {ex}")
            if desc is None or cfg.get("parent"):
                ctx.res["inconclusive"].append(f"{what}: the solver has a counterexample but no replayable image was built")
            else:
                desc["expect"] = dict(attrs=dict(size=mi(mr, stored["size"]), block_size=mi(mr, stored["block_size"]),
                                                 sector_size=mi(mr, stored["sector_size"]), has_parent=mi(mr, hp),
                                                 active_header=0 if mi(mr, seq1) > mi(mr, seq2) else 1))
                verdict, detail = _rp.run_replay(desc)
                if verdict == "violation":
                    path = ctx._save(desc, "cex")
                    ctx.res["violations"].append(dict(what=what, replay=path, detail=detail, vars=desc.get("vars")))
                    if len(ctx.res["violations"]) >= ctx.max_violations:
                        ctx.E.stop = True
                elif verdict == "ok":
                    ctx.res["errors"].append(f"{what}: solver counterexample does not reproduce on the real code: {detail}")
                else:
                    ctx.res["errors"].append(f"{what}: replay failed: {detail}")
        else:
            ctx.res["discharged"] += 1
        _finish(ctx, accept, "VHDX() accepted a container outside the supported set")

    return ctx.run(body, cov_files=[SRC])

"""C04 - VHD: every byte range reads as the guest-visible content."""
from __future__ import annotations

from harness import vhd

META = dict(
    level="model_checking",
    bounds="fixed and dynamic disks; block size 2^12..2^25 enumerated (quick: 2^12, 2^21, 2^25); request <= N blocks "
           "(quick 1, thorough 2; fixed: <= 16 MiB) from any 512-aligned offset; file size, footer position (512- or legacy "
           "511-byte footer), data_offset, current_size, table_offset, max_table_entries, every BAT word and the request symbolic",
    outside=["differencing VHDs (parent locators are not implemented by the reader)", "split VHD files",
             "block sizes that are not a power of two (the specification forbids them)"],
    assumptions=["dissect.cstruct layouts as learned from the real parser each run", "struct.Struct('>I') decodes a big-endian "
                 "uint32", "lru_cache is a correct memoiser (elided)",
                 "well-formed: current_size a multiple of 512, BAT covers the disk, allocated BAT entries are non-zero, "
                 "request 512-aligned and inside the disk"],
    must_reach=[(vhd.SRC, r"result\.append\(|return self\.fh\.read\(count \* SECTOR_SIZE\)|fh\.seek\(-511")],
)


SPLIT_DEPTH = 10


def tasks(tier):
    out = [("read", dict(kind="fixed"))]
    sizes = [12, 21, 25] if tier == "quick" else list(range(12, 26))
    n = 1 if tier == "quick" else 2
    for k in sizes:
        out.append(("read", dict(kind="dynamic", block_size=1 << k, n_blocks=n)))
    return out


def run(hname, cfg, tier, seed):
    return vhd.read_task("C04", cfg, tier, seed)


def precheck(tier, seed):
    import io

    from dissect.hypervisor.disk.vhd import VHD
    from harness import fixtures
    from oracles import vhd as spec

    errors, traces = [], 0
    for rel, dyn in (("fixed.vhd.gz", False), ("dynamic.vhd.gz", True)):
        data = fixtures.load_gz(rel)
        obj = VHD(io.BytesIO(data))
        mem = fixtures.mem_of(data)
        bs = obj.disk.header.block_size if dyn else 1 << 21

        def real(off, ln, obj=obj):
            obj.seek(off)
            return obj.read(ln)

        traces += fixtures.compare(rel, real, lambda g: spec.guest_byte(g, len(data), bs, mem, dyn), obj.size, (bs,), seed,
                                   errors)
    return dict(errors=errors, traces=traces, summary="oracle == real reader on fixed.vhd and dynamic.vhd (tests/data)")

"""C05 - VDI: every byte range reads as the guest-visible content."""
from __future__ import annotations

from harness import vdi

META = dict(
    level="model_checking",
    bounds="block size 2^12..2^24 enumerated (quick: 2^12, 2^20, 2^24); request <= N blocks (quick 2, thorough 3) starting "
           "at any 512-aligned offset; header fields (offBlocks, offData, DiskSize, BlocksInHDD), every block-map word and "
           "the request symbolic",
    outside=["BlockExtraData != 0", "requests longer than N blocks", "images > 1 PiB"],
    assumptions=["dissect.cstruct layouts as learned from the real parser each run", "array.frombytes decodes native "
                 "little-endian int32", "well-formed: signature, block map covers the disk, map entries >= -2, "
                 "request 512-aligned (the buffered layer only issues such requests) and inside the disk"],
    must_reach=[(vdi.SRC, r"bytes_read\.append\((b\"|self\.fh)")],
)


SPLIT_DEPTH = 10


def tasks(tier):
    sizes = [12, 20, 24] if tier == "quick" else list(range(12, 25))
    n = 2 if tier == "quick" else 3
    return [("read", dict(block_size=1 << k, n_blocks=n)) for k in sizes]


def run(hname, cfg, tier, seed):
    return vdi.read_task("C05", cfg, tier, seed)

"""C14: exposed metadata equals what the file stores. QCOW2: header extensions, backing file name, snapshot table."""
from __future__ import annotations

from harness.common import Ctx, Scenario, files_desc, mi
from oracles import qcow2 as spec
from symx import core, files, stubs
from symx.files import SymFile
from symx.sbytes import SymBytes
from symx.sstr import SymStr

EXT_END, EXT_BACKING, EXT_FEATURES, EXT_CRYPTO, EXT_BITMAPS, EXT_DATAFILE = 0, 0xE2792ACA, 0x6803F857, 0x0537BE77, \
    0x23852875, 0x44415441


def _is_file_range(x, start, length, E):
    """SymBool/bool: x (SymBytes or SymStr) denotes exactly file[start : start+length]"""
    data = x.data if isinstance(x, SymStr) else x
    if isinstance(data, (bytes, bytearray)):
        return (length == 0) if len(data) == 0 else False
    b = SymBytes.lift(data).coalesced(fork=True)
    if not b.segs:
        return length == 0
    if len(b.segs) != 1 or b.segs[0].kind != "file":
        return False
    return core.sym_and(b.segs[0].start == start, b.segs[0].length == length)


def qcow2_extensions_task(prop, cfg, tier, seed):
    """cfg: n_ext (<= 3 extensions before the end marker / end of area), backing (bool), version"""
    from harness import qcow2 as hq

    n_ext = cfg.get("n_ext", 2)
    backing = bool(cfg.get("backing"))
    version = cfg.get("version", 3)
    core.set_width(72)
    m = hq.load(stubs.ZlibStub(out_len=lambda k, mx: mx))
    ctx = Ctx(prop, "meta.qcow2_extensions", cfg, tier, seed, engine_kw=dict(max_decisions=500))
    cb = 16
    hlen = 104 if version == 3 else 72

    def body(E, ctx):
        E.structural_bytes_eq = True
        E.pins = {("QCowHeader", "magic"): spec.MAGIC, ("QCowHeader", "version"): version, ("QCowHeader", "cluster_bits"): cb,
                  ("QCowHeader", "crypt_method"): 0}
        if version == 3:
            E.pins.update({("QCowHeader", "incompatible_features"): 0, ("QCowHeader", "header_length"): hlen})
        fh = SymFile("img")
        bfo = files.word_at("img", 8, 8, "be")
        bfs = files.word_at("img", 16, 4, "be")
        if backing:
            bfo = E.assume_range(bfo, hlen + 8, 1 << 16)
            E.assume(bfs <= 1023)
            end = bfo
        else:
            E.assume(bfo == 0)
            end = 1 << cb
        # specification walk of the extension area
        pos = hlen
        exts = []
        live = True
        for k in range(n_ext + 1):
            mg = files.word_at("img", pos, 4, "be")
            ln = files.word_at("img", pos + 4, 4, "be")
            exts.append((pos, mg, ln))
            if backing:
                # header words the specification walk looks at beyond the end of the area lie inside the backing file
                # name: there they are text (the name is decodable), not arbitrary words
                E.assume(core.sym_or(pos + 8 <= end, core.sym_and((mg & 0x80808080) == 0, (ln & 0x80808080) == 0)))
            pos = pos + 8 + ((ln + 7) // 8) * 8
        # bound: the area ends (end marker, or no room for another header) after at most n_ext extensions
        lastpos, lastmg, lastln = exts[n_ext]
        E.assume(core.sym_or(lastmg == EXT_END, lastpos + 8 > end, lastln > end - (lastpos + 8)))
        vars_ = dict(backing_file_offset=bfo, backing_file_size=bfs)
        for k, (p_, mg, ln) in enumerate(exts):
            vars_[f"ext{k}_magic"], vars_[f"ext{k}_len"] = mg, ln

        def build(model):
            fd = files_desc(model, E.apps, seed, ("img",))
            fd["img"]["ascii"] = True
            return dict(entry="qcow2_meta", params=dict(backing=backing), files=fd, call=["meta"])

        def expect(model, desc):
            # concrete specification walk on the image
            from symx import replay_entries

            f = replay_entries.mkfile(desc["files"]["img"])

            def rd(a, n):
                f.seek(a)
                return f.read(n)

            out = dict(backing_format=None, feature_table=None, image_data_file=None, unknown=[], auto_backing_file=None)
            b_off = int.from_bytes(rd(8, 8), "big")
            b_len = int.from_bytes(rd(16, 4), "big")
            e = b_off or (1 << cb)
            p = hlen
            while p < e:
                mg_, ln_ = int.from_bytes(rd(p, 4), "big"), int.from_bytes(rd(p + 4, 4), "big")
                p += 8
                if p > e or ln_ > e - p or mg_ == EXT_END:
                    break
                data = rd(p, ln_)
                if mg_ == EXT_BACKING:
                    out["backing_format"] = data.hex()
                elif mg_ == EXT_FEATURES:
                    out["feature_table"] = data.hex()
                elif mg_ == EXT_DATAFILE:
                    out["image_data_file"] = data.hex()
                elif mg_ not in (EXT_CRYPTO, EXT_BITMAPS):
                    out["unknown"].append([mg_, data.hex()])
                p += (ln_ + 7) & ~7
            if b_off:
                out["auto_backing_file"] = rd(b_off, b_len).hex()
            return dict(qcow2_meta=out)

        ctx.scenario = Scenario(vars_, build, expect, prefer=[ln <= 64 for (_, _, ln) in exts])
        obj = m.QCow2(fh, backing_file=m.ALLOW_NO_BACKING_FILE if backing else None)
        # what the specification says is exposed
        bad = []
        want = dict(backing_format=None, feature_table=None, image_data_file=None)
        unknown = []
        alive = True
        for k, (p_, mg, ln) in enumerate(exts[:n_ext + 1]):
            fits = core.sym_and(p_ < end, p_ + 8 <= end, ln <= end - (p_ + 8))
            cont = core.sym_and(fits, mg != EXT_END)
            if not bool(cont):
                break
            if bool(mg == EXT_BACKING):
                want["backing_format"] = (p_ + 8, ln)
            elif bool(mg == EXT_FEATURES):
                want["feature_table"] = (p_ + 8, ln)
            elif bool(mg == EXT_DATAFILE):
                want["image_data_file"] = (p_ + 8, ln)
            elif bool(mg == EXT_CRYPTO) or bool(mg == EXT_BITMAPS):
                pass
            else:
                unknown.append((mg, p_ + 8, ln))
        for name, loc in want.items():
            got = getattr(obj, name)
            if loc is None:
                bad.append(got is not None)
            elif got is None:
                bad.append(True)
            else:
                bad.append(core.sym_not(_is_file_range(got, loc[0], loc[1], E)))
                if name == "backing_format" and isinstance(got, SymStr) and got.xf not in (("upper",), ("upper", "upper")):
                    bad.append(True)
        if len(obj.unknown_extensions) != len(unknown):
            bad.append(True)
        else:
            for (ext, data), (mg, st, ln) in zip(obj.unknown_extensions, unknown):
                bad.append(core.sym_or(ext.magic != mg, core.sym_not(_is_file_range(data, st, ln, E))))
        if backing:
            ab = obj.auto_backing_file
            bad.append(True if ab is None else core.sym_not(_is_file_range(ab, bfo, bfs, E)))
            if isinstance(ab, SymStr) and ab.xf:
                bad.append(True)
            ib = obj.image_backing_file
            if not (isinstance(ib, SymStr) and ib.xf == ("upper",)):
                bad.append(True)
        else:
            bad.append(obj.auto_backing_file is not None)
        bad.append(obj.size != files.word_at("img", 24, 8, "be"))
        if ctx.obligation(bad, "exposed header extension / backing file metadata differs from the stored one"):
            ctx.witness()

    return ctx.run(body, cov_files=[hq.SRC])


def qcow2_snapshots_task(prop, cfg, tier, seed):
    """cfg: n (snapshots, <= 2): entry k sits at the 8-byte padded running offset; id/name/extra segments and L1 fields."""
    from harness import qcow2 as hq

    n = cfg.get("n", 2)
    core.set_width(72)
    m = hq.load(stubs.ZlibStub(out_len=lambda k, mx: mx))
    ctx = Ctx(prop, "meta.qcow2_snapshots", cfg, tier, seed, engine_kw=dict(max_decisions=500))

    def body(E, ctx):
        E.structural_bytes_eq = True
        fh = SymFile("img")
        so = E.var("snapshots_offset", 512, 1 << 40)
        E.assume(so % 8 == 0)
        q = m.QCow2.__new__(m.QCow2)
        q.fh = fh
        import types

        q.header = types.SimpleNamespace(snapshots_offset=so, nb_snapshots=n)
        vars_ = dict(snapshots_offset=so)
        pos = so
        want = []
        for k in range(n):
            l1o = files.word_at("img", pos, 8, "be")
            l1s = files.word_at("img", pos + 8, 4, "be")
            ids = files.word_at("img", pos + 12, 2, "be")
            nms = files.word_at("img", pos + 14, 2, "be")
            xs = files.word_at("img", pos + 36, 4, "be")
            E.assume(xs <= 64)
            want.append(dict(pos=pos, l1o=l1o, l1s=l1s, id=(pos + 40 + xs, ids), name=(pos + 40 + xs + ids, nms)))
            vars_.update({f"snap{k}_extra": xs, f"snap{k}_id_len": ids, f"snap{k}_name_len": nms})
            pos = pos + ((40 + xs + ids + nms + 7) // 8) * 8

        def build(model):
            fd = files_desc(model, E.apps, seed, ("img",))
            fd["img"]["ascii"] = True
            return dict(entry="qcow2_snapshots", params=dict(snapshots_offset=mi(model, so), n=n), files=fd,
                        call=["snapshots"])

        def expect(model, desc):
            from symx import replay_entries

            f = replay_entries.mkfile(desc["files"]["img"])

            def rd(a, n_):
                f.seek(a)
                return f.read(n_)

            p = desc["params"]["snapshots_offset"]
            out = []
            for _ in range(n):
                l1o_, l1s_ = int.from_bytes(rd(p, 8), "big"), int.from_bytes(rd(p + 8, 4), "big")
                i_, n_ = int.from_bytes(rd(p + 12, 2), "big"), int.from_bytes(rd(p + 14, 2), "big")
                x_ = int.from_bytes(rd(p + 36, 4), "big")
                out.append([l1o_, l1s_, rd(p + 40 + x_, i_).hex(), rd(p + 40 + x_ + i_, n_).hex()])
                p += (40 + x_ + i_ + n_ + 7) & ~7
            return dict(snapshots=out)

        ctx.scenario = Scenario(vars_, build, expect,
                                prefer=[w["id"][1] <= 32 for w in want] + [w["name"][1] <= 32 for w in want])
        snaps = m.QCow2.snapshots.func(q) if hasattr(m.QCow2.snapshots, "func") else q.snapshots
        bad = [len(snaps) != n]
        for s_, w in zip(snaps, want):
            bad.append(s_.offset != w["pos"])
            bad.append(s_.header.l1_table_offset != w["l1o"])
            bad.append(s_.header.l1_size != w["l1s"])
            bad.append(core.sym_not(_is_file_range(s_.id_str, w["id"][0], w["id"][1], E)))
            bad.append(core.sym_not(_is_file_range(s_.name, w["name"][0], w["name"][1], E)))
        if ctx.obligation(bad, "snapshot table entries differ from the stored table"):
            ctx.witness()

    return ctx.run(body, cov_files=[hq.SRC])

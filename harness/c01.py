"""C01 - QCOW2: every byte range reads as the guest-visible content."""
from __future__ import annotations

from harness import qcow2

META = dict(
    level="model_checking",
    bounds="cluster_bits 9..21 enumerated (quick: 9, 16, 21); version {2,3}; standard and extended L2; external data "
           "file {no,yes}; backing {none, file of symbolic length, ALLOW_NO_BACKING_FILE}; request <= N clusters (quick 1, "
           "thorough 2) from any 512-aligned offset; virtual size, L1 size/offset, every L1/L2/bitmap word, backing length "
           "and the request symbolic (64-bit), so every table/cluster placement incl. offsets beyond 4 GiB is covered",
    outside=["zstd compression (optional dependency not installed)", "encrypted images (refused, C12)",
             "header extensions and snapshots (C14)", "requests longer than N clusters"],
    assumptions=["dissect.cstruct layouts as learned from the real parser each run",
                 "zlib is a deterministic function of (input range, window bits, output cap); well-formed compressed "
                 "clusters inflate to exactly one cluster", "lru_cache is a correct memoiser (elided)",
                 "well-formed: L1 covers the disk; no compressed clusters with an external data file; extended L2: no "
                 "sub-cluster both allocated and zero, unallocated clusters carry no allocation bits, compressed "
                 "clusters have an empty bitmap, bit 0 reserved; empty header-extension area; request 512-aligned"],
    must_reach=[(qcow2.SRC, r"result\.append\((b\"|self\.)")],
)


def tasks(tier):
    out = []
    bits = [9, 16, 21] if tier == "quick" else list(range(9, 22))
    n = 1 if tier == "quick" else 2
    for cb in bits:
        out.append(("read", dict(cluster_bits=cb, n_clusters=n)))
    out.append(("read", dict(cluster_bits=16, n_clusters=n, backing="file")))
    out.append(("read", dict(cluster_bits=16, n_clusters=n, data_file=True)))
    out.append(("read", dict(cluster_bits=12, n_clusters=n, version=2)))
    if tier == "thorough":
        out.append(("read", dict(cluster_bits=16, n_clusters=n, backing="allow_no")))
        out.append(("read", dict(cluster_bits=16, n_clusters=n, header_length=112)))
        out.append(("read", dict(cluster_bits=9, n_clusters=n, backing="file", data_file=True)))
        out.append(("read", dict(cluster_bits=21, n_clusters=n, version=2, backing="file")))
    return out


def run(hname, cfg, tier, seed):
    return qcow2.read_task("C01", cfg, tier, seed)
SPLIT_DEPTH = 10

"""C01 - QCOW2: every byte range reads as the guest-visible content."""
from __future__ import annotations

from harness import qcow2

META = dict(
    level="model_checking",
    bounds="cluster_bits 9..21 enumerated (quick: 9, 16, 21); version {2,3}; standard L2 entries; external data "
           "file {no,yes}; backing {none, file of symbolic length, ALLOW_NO_BACKING_FILE}; request <= N clusters (1; thorough 2 for "
           "cluster_bits 9 and 16) from any 512-aligned offset; virtual size, L1 size/offset, every L1/L2/bitmap word, backing length "
           "and the request symbolic (64-bit), so every table/cluster placement incl. offsets beyond 4 GiB is covered",
    outside=["extended L2 (sub-cluster) entries in the integrated read path: the reader's per-bit run computation forks "
             "beyond reach (measured: > 40 min on 16 cores for one start sub-cluster); covered by the unit check of the "
             "sub-cluster range functions (see DESIGN) and a concrete regression image", "zstd compression (optional dependency not installed)", "encrypted images (refused, C12)",
             "header extensions and snapshots (C14)", "requests longer than N clusters"],
    assumptions=["dissect.cstruct layouts as learned from the real parser each run",
                 "zlib is a deterministic function of (input range, window bits, output cap); well-formed compressed "
                 "clusters inflate to exactly one cluster", "lru_cache is a correct memoiser (elided)",
                 "well-formed: L1 covers the disk; no compressed clusters with an external data file; extended L2: no "
                 "sub-cluster both allocated and zero, unallocated clusters carry no allocation bits, compressed "
                 "clusters have an empty bitmap, bit 0 reserved; empty header-extension area; request 512-aligned"],
    must_reach=[(qcow2.SRC, r"result\.append\((b\"|self\.)")],
)


def tasks(tier):
    out = []
    bits = [9, 16, 21] if tier == "quick" else list(range(9, 22))
    n = 1 if tier == "quick" else 2
    for cb in bits:
        # two-cluster requests for a spread of cluster sizes, one-cluster requests for every size
        out.append(("read", dict(cluster_bits=cb, n_clusters=n if cb in (9, 16) else 1)))
    out.append(("read", dict(cluster_bits=16, n_clusters=1, backing="file")))
    out.append(("read", dict(cluster_bits=16, n_clusters=1, data_file=True)))
    out.append(("read", dict(cluster_bits=12, n_clusters=1, version=2)))
    # extended L2: unit check of the sub-cluster range computation on a fully symbolic entry
    for k in ((0, 1, 17, 31) if tier == "quick" else range(32)):
        out.append(("range", dict(sc_from=k, data_file=(k % 2 == 1))))
    if tier == "thorough":
        out.append(("read", dict(cluster_bits=16, n_clusters=1, backing="allow_no")))
        out.append(("read", dict(cluster_bits=16, n_clusters=1, header_length=112)))
        out.append(("read", dict(cluster_bits=9, n_clusters=1, backing="file", data_file=True)))
        out.append(("read", dict(cluster_bits=21, n_clusters=1, version=2, backing="file")))
    return out


def run(hname, cfg, tier, seed):
    if hname == "range":
        return qcow2.subcluster_range_task("C01", cfg, tier, seed)
    return qcow2.read_task("C01", cfg, tier, seed)
SPLIT_DEPTH = 12


def precheck(tier, seed):
    """Supplement (not the deciding step): the real reader against the oracle on concrete extended-L2 images built
    here, because the integrated symbolic run excludes extended L2. A mismatch is a demonstrated violation."""
    import io
    import json
    import os
    import random
    import struct

    from dissect.hypervisor.disk.qcow2 import QCow2
    from oracles import qcow2 as spec
    from oracles.mem import ConcMem
    from symx.files import SparseFile

    rng = random.Random(1000 + seed)
    cb = 14  # smallest cluster size that allows 512-byte sub-clusters
    cs = 1 << cb
    sub = cs // 32
    P = spec.Params(cb, True, False)
    n_images = 4 if tier == "quick" else 24
    traces, viol = 0, []
    samples = []
    for n in range(n_images):
        ncl = 6
        img = bytearray((3 + ncl) * cs)
        hdr = struct.pack(">IIQIIQIIQQIIQQQQII", spec.MAGIC, 3, 0, 0, cb, ncl * cs, 0, 1, cs, 0, 0, 0, 0, spec.INCOMPAT_EXTL2,
                          0, 0, 4, 104)
        img[: len(hdr)] = hdr
        struct.pack_into(">Q", img, cs, 2 * cs | (1 << 63))
        order = list(range(ncl))
        rng.shuffle(order)
        for c in range(ncl):
            kind = rng.choice(["alloc", "alloc", "unalloc", "contig"])
            host = (3 + order[c]) * cs
            if kind == "contig" and c > 0:
                host = (3 + order[c - 1] + 1) * cs if order[c - 1] + 1 < ncl else host
            alloc = zero = 0
            for b in range(32):
                r = rng.random()
                if kind != "unalloc" and r < 0.45:
                    alloc |= 1 << b
                elif r < 0.7:
                    zero |= 1 << b
            if rng.random() < 0.3:
                alloc, zero = (0xFFFFFFFF, 0) if kind != "unalloc" else (0, rng.choice([0, 0xFFFFFFFF]))
            e = (host | (1 << 63)) if kind != "unalloc" else 0
            struct.pack_into(">QQ", img, 2 * cs + 16 * c, e, alloc | (zero << 32))
        for k in range(3 * cs, len(img)):
            img[k] = (k * 131 + (k >> 8) * 17 + n) & 0xFF
        data = bytes(img)
        mem = ConcMem(io.BytesIO(data))
        for _ in range(6):
            off = rng.randrange(0, ncl * cs // 512) * 512
            ln = min(rng.choice([512, sub, 3 * sub, cs, 2 * cs + 512]), ncl * cs - off)
            exp = bytes(int(spec.guest_byte(off + k, cs, 1, P, mem, mem)) for k in range(ln))
            desc = dict(image=n, offset=off, length=ln)
            import signal

            def _timeout(signum, frame):
                raise TimeoutError("read did not return within 20 s")

            old_handler = signal.signal(signal.SIGALRM, _timeout)
            try:
                signal.alarm(20)
                got = QCow2(io.BytesIO(data))._read(off, ln)
            except Exception as ex:  # noqa: BLE001
                got = None
                desc["raised"] = type(ex).__name__
            finally:
                signal.alarm(0)
                signal.signal(signal.SIGALRM, old_handler)
            traces += 1
            if got != exp:
                bad_at = next((k for k in range(ln) if got is None or k >= len(got) or got[k] != exp[k]), 0)
                pos = sorted({0, ln - 1, bad_at} | {rng.randrange(ln) for _ in range(64)})
                full = dict(property="C01", harness="qcow2.extl2_images", entry="qcow2", params=dict(data_file=False, backing="none"),
                            files=dict(img=dict(size=len(data), seed=0, patches=[[0, data.hex()]])),
                            call=["_read", off, ln], expect=dict(len=ln, bytes=[[k, exp[k]] for k in pos]),
                            why="extended L2 image: the real reader differs from the oracle", vars=desc)
                os.makedirs(os.path.join(os.path.dirname(os.path.dirname(__file__)), "replays"), exist_ok=True)
                path = os.path.join(os.path.dirname(os.path.dirname(__file__)), "replays", f"C01_extl2_image_{n}_{off}.json")
                with open(path, "w") as fh:
                    json.dump(full, fh)
                viol.append(dict(what="extended-L2 image: real reader differs from the oracle", replay=path,
                                 detail=str(desc), vars=desc))
                break
            if len(samples) < 2:
                samples.append(dict(kind="concrete extended-L2 image", **desc, outcome="real code == oracle"))
    return dict(errors=[], violations=viol, traces=traces, samples=samples,
                summary=f"{n_images} concrete extended-L2 images x 6 reads compared with the oracle")

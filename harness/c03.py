"""C03 - VHDX (non-differencing): every byte range reads as the guest-visible content."""
from __future__ import annotations

from harness import vhdx

MB = 1 << 20

META = dict(
    level="model_checking",
    bounds="block size 2^20..2^28 x logical sector {512,4096} enumerated (quick: a subset); request <= N blocks' worth "
           "of sectors (N=1; thorough N=2 for four geometries; plus a 3-sector window that crosses block boundaries from any alignment); virtual size <= 64 TiB, BAT offset, "
           "every BAT word and the request (sector, count) symbolic; loops unwound under a decision budget with "
           "unwinding assertion",
    outside=["VHDX.__init__/region and metadata tables (covered by C12/C14)", "log replay (not implemented by the reader)",
             "requests longer than the stated number of blocks"],
    assumptions=["dissect.cstruct parses bat_entry as its own single-bit probes show (validated each run)",
                 "file object is immutable; lru_cache is a correct memoiser (elided)",
                 "well-formed: BAT region 1 MiB aligned, payload states in {0,1,2,3,6}, request inside the virtual disk"],
    must_reach=[(vhdx.SRC, r"sectors_read\.append\(b\"|sectors_read\.append\(self\.fh\.read\(read_size\)\)")],
)


SPLIT_DEPTH = 10


def tasks(tier):
    out = []
    if tier == "quick":
        geos = [(1 * MB, 4096), (32 * MB, 512), (256 * MB, 4096)]
    else:
        geos = [(MB << k, ss) for k in range(9) for ss in (512, 4096)]
    for bs, ss in geos:
        deep = tier == "thorough" and (bs, ss) in ((MB, 512), (MB, 4096), (32 * MB, 4096), (256 * MB, 512))
        out.append(("read", dict(block_size=bs, sector_size=ss, n_blocks=2 if deep else 1)))
    # a small-count window that still crosses block boundaries from any alignment
    out.append(("read", dict(block_size=MB, sector_size=4096, max_count=3, n_blocks=1)))
    out.append(("read", dict(block_size=MB, sector_size=4096, n_blocks=1, via="_read")))
    return out


def run(hname, cfg, tier, seed):
    return vhdx.read_task("C03", cfg, tier, seed)


def precheck(tier, seed):
    import io

    from dissect.hypervisor.disk.vhdx import VHDX
    from harness import fixtures
    from oracles import vhdx as spec

    errors, traces = [], 0
    for rel in ("fixed.vhdx.gz", "dynamic.vhdx.gz"):
        data = fixtures.load_gz(rel)
        obj = VHDX(io.BytesIO(data))
        mem = fixtures.mem_of(data)

        def real(off, ln, obj=obj):
            obj.seek(off)
            return obj.read(ln)

        traces += fixtures.compare(rel, real, lambda g: spec.guest_byte(g, obj.bat.offset, obj.block_size, obj.sector_size, mem),
                                   obj.size, (obj.block_size,), seed, errors)
    return dict(errors=errors, traces=traces, summary="oracle == real reader on fixed.vhdx and dynamic.vhdx (tests/data)")

"""Symbolic execution of the real VHDX read path (vhdx.py: read_sectors, _read, BlockAllocationTable.*)."""
from __future__ import annotations

import random

import z3

from harness.common import Ctx, Scenario, byte_obligation
from oracles import vhdx as spec
from symx import core, files, layouts, loader, replay
from symx.core import bvval as V
from symx.files import SymFile
from symx.sbytes import Seg, SymBytes

SRC = loader.repo_path("dissect/hypervisor/disk/vhdx.py")
MB = 1 << 20


class Parent:
    """The inductive hypothesis of C07: the parent presents *some* byte array, sector addressed."""

    def __init__(self, sector_size):
        self.ss = sector_size
        self.calls = []

    def read_sectors(self, sector, count):
        self.calls.append((sector, count))
        return SymBytes([Seg("opaque", "parent", sector * self.ss, count * self.ss)])


def load():
    m = loader.load(SRC)
    m.lru_cache = loader.identity_lru_cache
    m.c_vhdx = layouts.CStructProxy(m.c_vhdx)
    return m


def sample_positions(rng, total, unit, model_j=None):
    js = {0, total - 1}
    if model_j is not None and 0 <= model_j < total:
        js.add(model_j)
    k = unit
    while k < total and len(js) < 40:
        js.update({k - 1, k})
        k += unit
    for _ in range(24):
        js.add(rng.randrange(total))
    return sorted(j for j in js if 0 <= j < total)


def read_task(prop, cfg, tier, seed):
    """cfg: block_size, sector_size, n_blocks (request <= n_blocks blocks' worth), has_parent, via ('read_sectors'|'_read'),
    tail (allow the request to run past the end of the disk, C08 back-end contract)."""
    block_size, ss = cfg["block_size"], cfg["sector_size"]
    spb, cr = spec.geometry(block_size, ss)
    N = cfg.get("n_blocks", 1)
    max_count = cfg.get("max_count", N * spb)
    has_parent = bool(cfg.get("has_parent"))
    via = cfg.get("via", "read_sectors")
    core.set_width(cfg.get("W", 72))
    m = load()
    ctx = Ctx(prop, "vhdx.read", cfg, tier, seed, engine_kw=dict(max_decisions=cfg.get("max_decisions", 600)))
    rng = random.Random(seed)
    touched = (max_count + spb - 1) // spb + 1

    def in_process(desc):
        from symx import replay_runner

        fs = {k: replay_runner.mkfile(v) for k, v in desc["files"].items()}
        op = {k: replay_runner.mkfile(v) for k, v in desc.get("opaque", {}).items()}
        obj = replay_runner.OPENERS[desc["entry"]](fs, op, desc["params"])
        try:
            res = replay_runner.do_call(obj, desc["call"])
        except Exception as ex:  # noqa: BLE001
            return "violation", f"raised {type(ex).__name__}: {ex}"
        exp = desc["expect"]
        if len(res) != exp["len"]:
            return "violation", f"length {len(res)} != {exp['len']}"
        for j, v in exp["bytes"]:
            if res[j] != v:
                return "violation", f"byte {j}: {res[j]} != {v}"
        return "ok", "match"

    ctx.replay_in_process = in_process

    def body(E, ctx):
        fh = SymFile("img")
        obj = m.VHDX.__new__(m.VHDX)
        obj.fh = fh
        size = E.var("size", ss, 1 << 46)  # 64 TiB limit of the format
        E.assume(size % ss == 0)
        bat_off = E.var("bat_off", MB, 1 << 60)
        E.assume(bat_off % MB == 0)  # regions are 1 MiB aligned
        obj.size = size
        obj.block_size, obj.sector_size = block_size, ss
        obj._sectors_per_block, obj._chunk_ratio = spb, cr
        obj.has_parent = has_parent
        parent = Parent(ss) if has_parent else None
        obj.parent = parent
        obj.bat = m.BlockAllocationTable(obj, bat_off)
        sector = E.var("sector", 0, (1 << 46) // ss)
        count = E.var("count", 1, max_count)
        E.assume(sector * ss < size)
        if not cfg.get("tail"):
            E.assume((sector + count) * ss <= size)
        # well-formedness of the BAT entries the request can touch
        b0 = sector // spb
        for k in range(touched):
            b = b0 + k
            e = files.word_at("img", bat_off + 8 * (b + b // cr), 8, "le")
            E.assume(spec.valid_payload_state(e % 8, has_parent))

        vars_ = dict(size=core.bv(size), bat_off=core.bv(bat_off), sector=core.bv(sector), count=core.bv(count))
        j = z3.BitVec("j", core.S.W)
        vars_["j"] = j
        explen = core.sym_min(count * ss, size - sector * ss) if cfg.get("tail") else count * ss

        def build(model):
            pat = replay.patches_from_apps(model, E.apps)
            fdesc = dict(size=1 << 70, seed=seed & 0xFFFF,
                         patches=[[a, b.hex()] for a, b in sorted(pat.get("img", {}).items())])
            d = dict(entry="vhdx_new",
                     params=dict(size=replay.model_int(model, vars_["size"]), block_size=block_size, sector_size=ss,
                                 bat_offset=replay.model_int(model, vars_["bat_off"]), has_parent=has_parent),
                     files=dict(img=fdesc),
                     call=[via] + ([replay.model_int(model, vars_["sector"]), replay.model_int(model, vars_["count"])]
                                   if via == "read_sectors" else
                                   [replay.model_int(model, vars_["sector"]) * ss,
                                    replay.model_int(model, vars_["count"]) * ss]))
            if has_parent:
                d["opaque"] = dict(parent=dict(size=1 << 70, seed=(seed & 0xFFFF) + 77))
            return d

        def expect(model, desc):
            from symx import replay_runner

            fs = {"img": replay_runner.mkfile(desc["files"]["img"])}
            op = {k: replay_runner.mkfile(v) for k, v in desc.get("opaque", {}).items()}
            env = replay.ConcreteEnv({}, fs, op)
            sec = replay.model_int(model, vars_["sector"])
            cnt = replay.model_int(model, vars_["count"])
            total = replay.model_int(model, core.bv(explen))
            try:
                mj = replay.model_int(model, j)
            except Exception:  # noqa: BLE001
                mj = None
            out = []
            for jj in sample_positions(rng, total, ss, mj):
                t = spec.guest_byte(V(sec * ss + jj), V(desc["params"]["bat_offset"]), block_size, ss, has_parent)
                out.append([jj, replay.ceval(t, env)])
            return dict(len=total, bytes=out)

        prefer = [core.bv(count) * V(ss) <= V(16 * MB)]
        ctx.scenario = Scenario(vars_, build, expect, prefer=prefer if block_size <= 8 * MB else [])
        if via == "read_sectors":
            res = obj.read_sectors(sector, count)
        else:
            res = obj._read(sector * ss, count * ss)
        g = core.bv(sector) * V(ss) + j
        sv = spec.guest_byte(g, core.bv(bat_off), block_size, ss, has_parent)
        bad = byte_obligation(res, j, core.bv(explen), sv)
        if has_parent:
            # the parent must only ever be asked for sectors inside the request
            for (ps, pc) in parent.calls:
                bad = z3.Or(bad, core.bv(ps) < core.bv(sector), core.bv(ps) + core.bv(pc) > core.bv(sector) + core.bv(count))
        if ctx.obligation(bad, "read differs from the guest-visible content"):
            ctx.witness()
        return None

    return ctx.run(body, cov_files=[SRC])

"""Symbolic execution of the real VHDX read path (vhdx.py: read_sectors, _read, BlockAllocationTable.*)."""
from __future__ import annotations

import random

import z3

from harness.common import Ctx, byte_obligation, fault_finish, fault_mode, io_cases, mi, read_scenario
from oracles.mem import SymMem, SymOpaque
from oracles import vhdx as spec
from symx import core, files, layouts, loader, replay
from symx.core import bvval as V
from symx.files import SymFile
from symx.sbytes import Seg, SymBytes

SRC = loader.repo_path("dissect/hypervisor/disk/vhdx.py")
MB = 1 << 20


class Parent:
    """The inductive hypothesis of C07: the parent presents *some* byte array, sector addressed."""

    def __init__(self, sector_size):
        self.ss = sector_size
        self.calls = []

    def read_sectors(self, sector, count):
        self.calls.append((sector, count))
        return SymBytes([Seg("opaque", "parent", sector * self.ss, count * self.ss)])


def load(real_cache=False):
    m = loader.load(SRC)
    if not real_cache:
        m.lru_cache = loader.identity_lru_cache
    m.c_vhdx = layouts.CStructProxy(m.c_vhdx)
    return m


def read_task(prop, cfg, tier, seed):
    """cfg: block_size, sector_size, n_blocks (request <= n_blocks blocks' worth), has_parent, via ('read_sectors'|'_read'),
    tail (allow the request to run past the end of the disk, C08 back-end contract)."""
    block_size, ss = cfg["block_size"], cfg["sector_size"]
    spb, cr = spec.geometry(block_size, ss)
    N = cfg.get("n_blocks", 1)
    max_count = cfg.get("max_count", N * spb)
    has_parent = bool(cfg.get("has_parent"))
    via = cfg.get("via", "read_sectors")
    core.set_width(cfg.get("W", 72))
    m = load(real_cache=bool(cfg.get("prime")))
    ctx = Ctx(prop, "vhdx.read", cfg, tier, seed, engine_kw=dict(max_decisions=cfg.get("max_decisions", 600)))
    rng = random.Random(seed)
    fault = bool(cfg.get("fault"))
    if fault:
        fault_mode(ctx)
    touched = (max_count + spb - 1) // spb + 1

    def body(E, ctx):
        fh = SymFile("img")
        obj = m.VHDX.__new__(m.VHDX)
        obj.fh = fh
        size = E.var("size", ss, 1 << 46)  # 64 TiB limit of the format
        E.assume(size % ss == 0)
        bat_off = E.var("bat_off", MB, 1 << 60)
        E.assume(bat_off % MB == 0)  # regions are 1 MiB aligned
        obj.size = size
        obj.block_size, obj.sector_size = block_size, ss
        obj._sectors_per_block, obj._chunk_ratio = spb, cr
        obj.has_parent = has_parent
        parent = Parent(ss) if has_parent else None
        obj.parent = parent
        obj.bat = m.BlockAllocationTable(obj, bat_off)
        sector = E.var("sector", 0, (1 << 46) // ss)
        count = E.var("count", 1, max_count)
        E.assume(sector * ss < size)
        if not cfg.get("tail"):
            E.assume((sector + count) * ss <= size)
        # well-formedness of the BAT entries the request can touch
        b0 = sector // spb
        for k in range(touched):
            b = b0 + k
            e = files.word_at("img", bat_off + 8 * (b + b // cr), 8, "le")
            if cfg.get("force_partial"):
                E.assume(e % 8 == spec.PARTIALLY_PRESENT)  # narrow configuration: only the sector-bitmap path
            if not fault:
                E.assume(spec.valid_payload_state(e % 8, has_parent))
            if has_parent and not fault:
                # a partially present block has a present sector-bitmap block
                sb = files.word_at("img", bat_off + 8 * spec.bitmap_index(b, cr), 8, "le")
                E.assume(core.sym_or(e % 8 != spec.PARTIALLY_PRESENT, sb % 8 == 6))

        j = E.var("j", 0, 1 << 50)
        vars_ = dict(size=size, bat_off=bat_off, sector=sector, count=count, j=j)
        explen = core.sym_min(count * ss, size - sector * ss) if cfg.get("tail") else count * ss
        mem = SymMem("img")
        par = SymOpaque("parent") if has_parent else None

        def spec_at(model, g, mems, ops):
            return spec.guest_byte(g, mi(model, bat_off), block_size, ss, mems["img"], ops.get("parent"))

        def call(mo):
            if cfg.get("prime"):
                return ["ops", [["read_sectors", mi(mo, vars_["prime_sector"]), mi(mo, vars_["prime_count"])],
                                ["read_sectors", mi(mo, sector), mi(mo, count)]]]
            if via == "read_sectors":
                return [via, mi(mo, sector), mi(mo, count)]
            return [via, mi(mo, sector) * ss, mi(mo, count) * ss]

        ctx.scenario = read_scenario(
            ctx, E, vars_, entry="vhdx_new",
            params=lambda mo: dict(size=mi(mo, size), block_size=block_size, sector_size=ss, bat_offset=mi(mo, bat_off),
                                   has_parent=has_parent),
            call=call, total=lambda mo: mi(mo, explen), g0=lambda mo: mi(mo, sector) * ss, spec_at=spec_at, unit=ss,
            extra_units=(block_size,), rng=rng, maxlen=(lambda mo: mi(mo, count * ss)) if cfg.get("tail") else None, j=j, opaque=("parent",) if has_parent else (),
            prefer=[count * ss <= 16 * MB] if block_size <= 8 * MB else [])
        ctx.scenario.wide = [sector >= 1 << 32, bat_off >= 1 << 40]
        if cfg.get("prime"):
            E.structural_bytes_eq = True  # byte strings used as cache keys compare by (source, range)
            # C08 lemma 3: an arbitrary earlier request on the same object (real lru_cache in place) must not change
            # what this request returns
            s1 = E.var("prime_sector", 0, (1 << 46) // ss)
            c1 = E.var("prime_count", 1, cfg.get("prime_count", 1))
            E.assume((s1 + c1) * ss <= size)
            if cfg.get("prime_same"):
                E.assume(s1 == sector)  # the same request twice
                E.assume(c1 == count)
            for k in range((cfg.get("prime_count", 1) + spb - 1) // spb + 1):
                b = s1 // spb + k
                e1 = files.word_at("img", bat_off + 8 * (b + b // cr), 8, "le")
                E.assume(spec.valid_payload_state(e1 % 8, has_parent))
                if cfg.get("force_partial"):
                    E.assume(e1 % 8 == spec.PARTIALLY_PRESENT)
                if has_parent:
                    sb1 = files.word_at("img", bat_off + 8 * spec.bitmap_index(b, cr), 8, "le")
                    E.assume(core.sym_or(e1 % 8 != spec.PARTIALLY_PRESENT, sb1 % 8 == 6))
            vars_.update(prime_sector=s1, prime_count=c1)
            obj.read_sectors(s1, c1)
            if parent is not None:
                del parent.calls[:]
        if via == "read_sectors":
            res = obj.read_sectors(sector, count)
        else:
            res = obj._read(sector * ss, count * ss)
        if fault:
            return fault_finish(ctx, E, res, count * ss, block_size)
        sv = spec.guest_byte(sector * ss + j, bat_off, block_size, ss, mem, par)
        bad = byte_obligation(res, j, explen, sv, maxlen=count * ss if cfg.get("tail") else None)
        if cfg.get("io"):
            nruns = max_count + touched
            bad += io_cases(fh.reads, 16 * touched + (max_count + 15) // 8 * touched + count * ss, 3 * touched + nruns)
        if has_parent:
            # the parent must only ever be asked for sectors inside the request
            for (ps, pc) in parent.calls:
                bad.append(core.sym_or(ps < sector, ps + pc > sector + count))
        if ctx.obligation(bad, "read differs from the guest-visible content"):
            ctx.witness()
        return None

    return ctx.run(body, cov_files=[SRC])


def partial_runs_task(prop, cfg, tier, seed):
    """Unit: real _iter_partial_runs(bitmap, start_idx, length) on a symbolic bitmap of nbytes bytes, start_idx enumerated,
    length symbolic. The concatenated runs must expand to bits [start_idx, start_idx+length) of the bitmap, LSB first."""
    from harness.common import Scenario

    nbytes, start = cfg["nbytes"], cfg["start_idx"]
    maxlen = min(cfg.get("max_len", 8 * nbytes - start), 8 * nbytes - start)
    core.set_width(72)
    m = load()
    ctx = Ctx(prop, "vhdx.partial_runs", cfg, tier, seed, engine_kw=dict(max_decisions=400))

    def body(E, ctx):
        length = E.var("length", 1, maxlen)
        bitmap = SymBytes([Seg("file", "bm", 0, nbytes)])
        bs = [files.byte_at("bm", k) for k in range(nbytes)]
        i = E.var("i", 0, maxlen - 1)
        vars_ = dict(length=length, i=i, **{f"b{k}": b for k, b in enumerate(bs)})

        def build(model):
            return dict(entry="vhdx_partial_runs", params={}, files={},
                        call=["partial_runs", bytes(mi(model, b) for b in bs).hex(), start, mi(model, length)])

        def expect(model, desc):
            data = bytes(mi(model, b) for b in bs)
            n = mi(model, length)
            return dict(bits=[(data[(start + k) // 8] >> ((start + k) % 8)) & 1 for k in range(n)])

        ctx.scenario = Scenario(vars_, build, expect)
        runs = list(m._iter_partial_runs(bitmap, start, length))
        pos = 0
        # bit start+i of the bitmap
        bit = 0
        for k in range(nbytes - 1, -1, -1):
            sel = (bs[k] >> ((start + i) % 8)) & 1
            bit = sel if k == nbytes - 1 else core.ite((start + i) // 8 == k, sel, bit)
        bad = []
        for (t, c) in runs:
            bad.append(c < 1)
            bad.append(core.sym_and(i < length, i >= pos, i < pos + c, bit != t))
            pos = pos + c
        bad.insert(0, pos != length)
        ctx.obligation(bad, "runs do not expand to the bitmap bits")

    return ctx.run(body, cov_files=[SRC])

"""Symbolic execution of the real VHDX read path (vhdx.py: read_sectors, _read, BlockAllocationTable.*)."""
from __future__ import annotations

import random

import z3

from harness.common import Ctx, byte_obligation, mi, read_scenario
from oracles.mem import SymMem, SymOpaque
from oracles import vhdx as spec
from symx import core, files, layouts, loader, replay
from symx.core import bvval as V
from symx.files import SymFile
from symx.sbytes import Seg, SymBytes

SRC = loader.repo_path("dissect/hypervisor/disk/vhdx.py")
MB = 1 << 20


class Parent:
    """The inductive hypothesis of C07: the parent presents *some* byte array, sector addressed."""

    def __init__(self, sector_size):
        self.ss = sector_size
        self.calls = []

    def read_sectors(self, sector, count):
        self.calls.append((sector, count))
        return SymBytes([Seg("opaque", "parent", sector * self.ss, count * self.ss)])


def load():
    m = loader.load(SRC)
    m.lru_cache = loader.identity_lru_cache
    m.c_vhdx = layouts.CStructProxy(m.c_vhdx)
    return m


def read_task(prop, cfg, tier, seed):
    """cfg: block_size, sector_size, n_blocks (request <= n_blocks blocks' worth), has_parent, via ('read_sectors'|'_read'),
    tail (allow the request to run past the end of the disk, C08 back-end contract)."""
    block_size, ss = cfg["block_size"], cfg["sector_size"]
    spb, cr = spec.geometry(block_size, ss)
    N = cfg.get("n_blocks", 1)
    max_count = cfg.get("max_count", N * spb)
    has_parent = bool(cfg.get("has_parent"))
    via = cfg.get("via", "read_sectors")
    core.set_width(cfg.get("W", 72))
    m = load()
    ctx = Ctx(prop, "vhdx.read", cfg, tier, seed, engine_kw=dict(max_decisions=cfg.get("max_decisions", 600)))
    rng = random.Random(seed)
    touched = (max_count + spb - 1) // spb + 1

    def body(E, ctx):
        fh = SymFile("img")
        obj = m.VHDX.__new__(m.VHDX)
        obj.fh = fh
        size = E.var("size", ss, 1 << 46)  # 64 TiB limit of the format
        E.assume(size % ss == 0)
        bat_off = E.var("bat_off", MB, 1 << 60)
        E.assume(bat_off % MB == 0)  # regions are 1 MiB aligned
        obj.size = size
        obj.block_size, obj.sector_size = block_size, ss
        obj._sectors_per_block, obj._chunk_ratio = spb, cr
        obj.has_parent = has_parent
        parent = Parent(ss) if has_parent else None
        obj.parent = parent
        obj.bat = m.BlockAllocationTable(obj, bat_off)
        sector = E.var("sector", 0, (1 << 46) // ss)
        count = E.var("count", 1, max_count)
        E.assume(sector * ss < size)
        if not cfg.get("tail"):
            E.assume((sector + count) * ss <= size)
        # well-formedness of the BAT entries the request can touch
        b0 = sector // spb
        for k in range(touched):
            b = b0 + k
            e = files.word_at("img", bat_off + 8 * (b + b // cr), 8, "le")
            E.assume(spec.valid_payload_state(e % 8, has_parent))

        j = E.var("j", 0, 1 << 50)
        vars_ = dict(size=size, bat_off=bat_off, sector=sector, count=count, j=j)
        explen = core.sym_min(count * ss, size - sector * ss) if cfg.get("tail") else count * ss
        mem = SymMem("img")
        par = SymOpaque("parent") if has_parent else None

        def spec_at(model, g, mems, ops):
            return spec.guest_byte(g, mi(model, bat_off), block_size, ss, mems["img"], ops.get("parent"))

        def call(mo):
            if via == "read_sectors":
                return [via, mi(mo, sector), mi(mo, count)]
            return [via, mi(mo, sector) * ss, mi(mo, count) * ss]

        ctx.scenario = read_scenario(
            ctx, E, vars_, entry="vhdx_new",
            params=lambda mo: dict(size=mi(mo, size), block_size=block_size, sector_size=ss, bat_offset=mi(mo, bat_off),
                                   has_parent=has_parent),
            call=call, total=lambda mo: mi(mo, explen), g0=lambda mo: mi(mo, sector) * ss, spec_at=spec_at, unit=ss,
            extra_units=(block_size,), rng=rng, j=j, opaque=("parent",) if has_parent else (),
            prefer=[count * ss <= 16 * MB] if block_size <= 8 * MB else [])
        if via == "read_sectors":
            res = obj.read_sectors(sector, count)
        else:
            res = obj._read(sector * ss, count * ss)
        sv = spec.guest_byte(sector * ss + j, bat_off, block_size, ss, mem, par)
        bad = byte_obligation(res, j, explen, sv)
        if has_parent:
            # the parent must only ever be asked for sectors inside the request
            for (ps, pc) in parent.calls:
                bad.append(core.sym_or(ps < sector, ps + pc > sector + count))
        if ctx.obligation(bad, "read differs from the guest-visible content"):
            ctx.witness()
        return None

    return ctx.run(body, cov_files=[SRC])

"""Symbolic execution of the real Parallels HDS reader (hdd.py: HDS.__init__, bat, _iter_runs, _read)."""
from __future__ import annotations

import random

import z3

from harness.common import Ctx, byte_obligation, fault_finish, fault_mode, io_cases, mi, read_scenario
from oracles.mem import SymMem, SymOpaque
from oracles import hds as spec
from symx import core, files, layouts, loader
from symx.core import bvval as V
from symx.files import SymFile
from symx.sbytes import Seg, SymBytes

SRC = loader.repo_path("dissect/hypervisor/disk/hdd.py")


class ParentStream:
    """Parent layer presenting an opaque byte array through seek/read."""

    def __init__(self):
        self.pos = 0
        self.calls = []

    def __bool__(self):
        return True

    def seek(self, off, whence=0):
        self.pos = off
        return off

    def read(self, n=-1):
        self.calls.append((self.pos, n))
        r = SymBytes([Seg("opaque", "parent", self.pos, n)])
        self.pos = self.pos + n
        return r


def load():
    m = loader.load(SRC)
    m.c_hdd = layouts.CStructProxy(m.c_hdd)
    return m


def read_task(prop, cfg, tier, seed):
    """cfg: version (1|2), tracks (sectors per cluster), n_clusters, has_parent, tail"""
    version, tracks = cfg["version"], cfg["tracks"]
    cs = tracks * 512
    N = cfg.get("n_clusters", 2)
    has_parent = bool(cfg.get("has_parent"))
    core.set_width(cfg.get("W", 72))
    m = load()
    ctx = Ctx(prop, "hds.read", cfg, tier, seed, engine_kw=dict(max_decisions=cfg.get("max_decisions", 600)))
    rng = random.Random(seed)
    fault = bool(cfg.get("fault"))
    if fault:
        fault_mode(ctx)
    sig = spec.SIG_V1 if version == 1 else spec.SIG_V2

    def body(E, ctx):
        E.pins = {("pvd_header", "m_Sectors"): tracks}
        fh = SymFile("img")
        for k, c in enumerate(sig):
            E.assume(files.byte_at("img", k) == c)
        nbat = files.word_at("img", 32, 4, "le")
        if version == 1:
            nsec = files.word_at("img", 36, 4, "le")
        else:
            nsec = files.word_at("img", 36, 8, "le")
            nsec = E.assume_range(nsec, 1, 1 << 44)
        E.assume(nsec >= 1)
        if not fault:
            E.assume(nbat * tracks >= nsec)  # the BAT covers the disk
        size = nsec * 512
        offset = E.var("offset", 0, 1 << 53)
        length = E.var("length", 512, N * cs)
        E.assume(offset % 512 == 0)
        E.assume(length % 512 == 0)
        E.assume(offset < size)
        if not cfg.get("tail"):
            E.assume(offset + length <= size)
        j = E.var("j", 0, 1 << 54)
        vars_ = dict(offset=offset, length=length, nsec=nsec, nbat=nbat, j=j)
        explen = core.sym_min(length, size - offset) if cfg.get("tail") else length
        mem = SymMem("img")
        par = SymOpaque("parent") if has_parent else None

        def spec_at(model, g, mems, ops):
            return spec.guest_byte(g, version, tracks, mems["img"], ops.get("parent"))

        parent = ParentStream() if has_parent else None
        ctx.scenario = read_scenario(
            ctx, E, vars_, entry="hds", params=lambda mo: dict(has_parent=has_parent),
            call=lambda mo: ["_read", mi(mo, offset), mi(mo, length)], total=lambda mo: mi(mo, explen),
            g0=lambda mo: mi(mo, offset), spec_at=spec_at, unit=cs, rng=rng, maxlen=(lambda mo: mi(mo, length)) if cfg.get("tail") else None, j=j,
            opaque=("parent",) if has_parent else (),
            prefer=[nbat <= 1 << 20] + ([length <= 16 << 20] if cs <= (4 << 20) else []))
        ctx.scenario.wide = [offset >= 1 << 39]
        ctx.scenario.small = [nbat]
        obj = m.HDS(fh, parent)
        res = obj._read(offset, length)
        if fault:
            return fault_finish(ctx, E, res, length, cs)
        sv = spec.guest_byte(offset + j, version, tracks, mem, par)
        bad = byte_obligation(res, j, explen, sv, extra=[obj.size != size], maxlen=length if cfg.get("tail") else None)
        if cfg.get("io"):
            bad += io_cases(fh.reads, 64 + 4 * nbat + length, 2 + N + 1)
        if ctx.obligation(bad, "read differs from the guest-visible content"):
            ctx.witness()

    return ctx.run(body, cov_files=[SRC])

"""Symbolic execution of the real QCOW2 reader (qcow2.py: QCow2.__init__, _read_extensions, l1_table, L2Table,
_read, _yield_runs, _read_compressed, _decompress, the cluster/sub-cluster type helpers)."""
from __future__ import annotations

import random

from harness.common import Ctx, byte_obligation, fault_finish, fault_mode, io_cases, mi, read_scenario
from oracles import qcow2 as spec
from oracles.mem import SymMem, SymOpaque
from symx import core, files, layouts, loader, replay, stubs, summary
from symx.files import SymFile

SRC = loader.repo_path("dissect/hypervisor/disk/qcow2.py")
CSRC = loader.repo_path("dissect/hypervisor/disk/c_qcow2.py")


def load(zlib_stub, summaries=True, real_cache=False):
    m = loader.load(SRC)
    if not real_cache:
        m.lru_cache = loader.identity_lru_cache
    m.c_qcow2 = layouts.CStructProxy(m.c_qcow2)
    m.zlib = zlib_stub
    # bit-scan helpers (loops over bit positions) are replaced by summaries computed from their real, current code
    for name in ("ctz", "cto", "clz", "clo"):
        f = getattr(m, name, None)
        if callable(f) and summaries:
            setattr(m, name, summary.lazy(f, 0, (1 << 64) - 1))
    return m


def read_task(prop, cfg, tier, seed):
    """cfg: cluster_bits, version (2|3), ext_l2, data_file, backing ('none'|'file'|'allow_no'), n_clusters, tail,
    header_length (v3: 104|112)"""
    cb = cfg["cluster_bits"]
    version = cfg.get("version", 3)
    ext = bool(cfg.get("ext_l2"))
    dfile = bool(cfg.get("data_file"))
    backing = cfg.get("backing", "none")
    N = cfg.get("n_clusters", 1)
    hlen = cfg.get("header_length", 104)
    core.set_width(cfg.get("W", 72))
    P = spec.Params(cb, ext, dfile)
    cs = P.cs
    zlog = []
    zl = stubs.ZlibStub(out_len=lambda key, mx: mx if mx else (1 << 40), log=zlog, lenient=bool(cfg.get("fault")))
    m = load(zl, summaries=cfg.get("summaries", not ext), real_cache=bool(cfg.get("prime")))
    ctx = Ctx(prop, "qcow2.read", cfg, tier, seed, engine_kw=dict(max_decisions=cfg.get("max_decisions", 1500)))
    rng = random.Random(seed)
    fault = bool(cfg.get("fault"))
    if fault:
        fault_mode(ctx)
    feats = (spec.INCOMPAT_EXTL2 if ext else 0) | (spec.INCOMPAT_DATA_FILE if dfile else 0)
    core_sz = replay.deflate_core_size(cs)
    touched = N + 1

    def body(E, ctx):
        del zlog[:]
        E.pins = {("QCowHeader", "magic"): spec.MAGIC, ("QCowHeader", "version"): version,
                  ("QCowHeader", "cluster_bits"): cb, ("QCowHeader", "crypt_method"): 0}
        if version == 3:
            E.pins.update({("QCowHeader", "incompatible_features"): feats, ("QCowHeader", "header_length"): hlen,
                           ("QCowHeader", "compression_type"): 0})
        fh = SymFile("img")
        dfh = SymFile("data") if dfile else None
        size = files.word_at("img", 24, 8, "be")
        size = E.assume_range(size, 512, 1 << 62)
        E.assume(size % 512 == 0)
        l1_size = files.word_at("img", 36, 4, "be")
        l1_off = files.word_at("img", 40, 8, "be")
        l1_off = E.assume_range(l1_off, 0, 1 << 62)
        if not fault:
            E.assume(l1_size * (cs * P.l2n) >= size)  # the L1 table covers the virtual disk
        bfo = files.word_at("img", 8, 8, "be")
        bsize = None
        if backing == "none":
            E.assume(bfo == 0)
        else:
            bfo = E.assume_range(bfo, hlen + 8, 1 << 62)
            bfs = files.word_at("img", 16, 4, "be")
            E.assume(bfs <= 1023)
        # header extensions are the subject of C14; here the extension area is empty (end marker first)
        ext_at = hlen if version == 3 else 72
        E.assume(files.word_at("img", ext_at, 4, "be") == 0)
        offset = E.var("offset", 0, 1 << 62)
        length = E.var("length", 512, cfg.get("max_len") or N * cs)
        E.assume(offset % 512 == 0)
        E.assume(length % 512 == 0)
        E.assume(offset < size)
        if not cfg.get("tail"):
            E.assume(offset + length <= size)
        if cfg.get("sc_index") is not None:
            # extended L2: the request starts in a fixed sub-cluster (enumerated), so bit masks are constants
            E.assume((offset % cs) // (cs // 32) == cfg["sc_index"])
        j = E.var("j", 0, 1 << 62)
        mem = SymMem("img")
        dmem = SymMem("data") if dfile else mem
        bmem = None
        bstub = None
        if backing == "file":
            bsize = E.var("backing_size", 0, 1 << 62)
            bstub = SymFile("backing", size=bsize, eof=True)
            bmem = SymMem("backing")
        elif backing == "allow_no":
            bstub = m.ALLOW_NO_BACKING_FILE
        # well-formedness of the L2 entries the request can touch
        c0 = offset // cs
        for k in range(touched):
            g = (c0 + k) * cs
            l1i, l2off, ea = spec.l2_entry_addr(g, l1_off, P, mem)
            e = mem.word(ea, 8, "be")
            bm = mem.word(ea + 8, 8, "be") if ext else 0
            if not fault:
                E.assume(core.sym_or(l1i >= l1_size, l2off == 0, spec.wellformed_entry(e, bm, P)))
        vars_ = dict(size=size, l1_size=l1_size, l1_off=l1_off, offset=offset, length=length, j=j)
        if bsize is not None:
            vars_["backing_size"] = bsize
        explen = core.sym_min(length, size - offset) if cfg.get("tail") else length

        def spec_at(model, g, mems, ops):
            return spec.guest_byte(g, mi(model, l1_off), mi(model, l1_size), P, mems["img"],
                                   mems["data"] if dfile else mems["img"], ops.get("backing"),
                                   mi(model, bsize) if bsize is not None else 0)

        def post_files(model, d):
            plains = {}
            for (fname, off, ln, wbits, mx) in zlog:
                o, l = mi(model, off), mi(model, ln)
                if fault:
                    # a decompression bomb: 64 allocation units of zeros in a stream of exactly the stored length
                    plain, stream = replay.deflate_exact(o, 0, l, wbits, plain=bytes(64 * (cs)))
                    if fname in d["files"]:
                        d["files"][fname]["patches"].append([o, stream.hex()])
                    d["_fault_expect"] = dict(max_inflate=cs)
                    continue
                plain, stream = replay.deflate_exact(o, cs, l, wbits)
                d["files"][fname]["patches"].append([o, stream.hex()])
                plains[o] = plain
            # the oracle may name compressed ranges the implementation never inflated
            def inflate(off, ln, wbits, maxlen, idx):
                if off not in plains:
                    plains[off] = replay._plain(off, cs)
                return plains[off][idx] if idx < len(plains[off]) else 0
            d["_inflate"] = inflate

        names = ("img", "data") if dfile else ("img",)
        ctx.scenario = read_scenario(
            ctx, E, vars_, entry="qcow2", params=lambda mo: dict(data_file=dfile, backing=backing),
            call=lambda mo: (["ops", [["_read", mi(mo, vars_["prime_offset"]), mi(mo, vars_["prime_length"])],
                                      ["_read", mi(mo, offset), mi(mo, length)]]] if cfg.get("prime") else
                             ["_read", mi(mo, offset), mi(mo, length)]), total=lambda mo: mi(mo, explen),
            g0=lambda mo: mi(mo, offset), spec_at=spec_at, unit=cs // 32 if ext else cs, extra_units=(cs,), rng=rng, maxlen=(lambda mo: mi(mo, length)) if cfg.get("tail") else None, j=j,
            names=names, opaque=("backing",) if backing == "file" else (),
            opaque_sizes=dict(backing=lambda mo: mi(mo, bsize)) if bsize is not None else None,
            prefer=[l1_size <= 1 << 16], post_files=post_files)
        ctx.scenario.wide = [l1_off >= 1 << 40, offset >= 1 << 40]
        ctx.scenario.small = [l1_size]
        if backing == "none":
            obj = m.QCow2(fh, data_file=dfh)
        else:
            obj = m.QCow2(fh, data_file=dfh, backing_file=bstub)
        if cfg.get("prime"):
            # C08 lemma 3: an arbitrary earlier request (real lru_cache / cached_property in place) must be invisible
            o1 = E.var("prime_offset", 0, 1 << 62)
            l1 = E.var("prime_length", 512, cfg.get("prime_len", 512))
            E.assume(o1 % 512 == 0)
            E.assume(l1 % 512 == 0)
            E.assume(o1 + l1 <= size)
            for k in range(2):
                g1 = (o1 // cs + k) * cs
                l1i_, l2off_, ea_ = spec.l2_entry_addr(g1, l1_off, P, mem)
                e_ = mem.word(ea_, 8, "be")
                E.assume(core.sym_or(l1i_ >= l1_size, l2off_ == 0, spec.wellformed_entry(e_, 0, P)))
            vars_.update(prime_offset=o1, prime_length=l1)
            obj._read(o1, l1)
        res = obj._read(offset, length)
        # replay needs every inflated range to be long enough for a crafted stream and clear of the tables
        sc = ctx.scenario
        for n1, (f1, o1, l1, _, _) in enumerate(zlog):
            for (f2_, o2, l2, _, _) in zlog[n1 + 1:]:
                if f1 == f2_:
                    # two compressed units either are the same range or do not overlap
                    sc.extra.append(core.sym_or(core.sym_and(o1 == o2, l1 == l2), o1 + l1 <= o2, o2 + l2 <= o1))
        for (fname, off, ln, wbits, mx) in zlog:
            sc.need.append(ln >= core_sz + 32)

        def inflate_clear():
            # no recorded byte/word view (of the implementation or of the oracle) may lie inside a compressed range
            out = []
            for (fname, off, ln, wbits, mx) in zlog:
                for kd, f2, n2, e2, a2, v2, ai2 in E.apps:
                    if f2 == fname:
                        a = core.SymInt(a2, ai2, 0, 1 << 70)
                        out.append(core.sym_or(a + n2 <= off, a >= off + ln))
            return out

        sc.extra_fn = inflate_clear
        if fault:
            return fault_finish(ctx, E, res, length, cs, zlog, cs)
        sv = spec.guest_byte(offset + j, l1_off, l1_size, P, mem, dmem, bmem, bsize if bsize is not None else 0)
        bad = byte_obligation(res, j, explen, sv, extra=[obj.size != size], maxlen=length if cfg.get("tail") else None)
        if cfg.get("io"):
            per_cluster = P.l2n * P.es + 2 * cs + 512
            bad += io_cases(fh.reads, 112 + 8 + 1023 + 8 * l1_size + touched * per_cluster + length, 4 + 4 * touched)
        if ctx.obligation(bad, "read differs from the guest-visible content"):
            ctx.witness()

    return ctx.run(body, cov_files=[SRC, CSRC])


def subcluster_range_task(prop, cfg, tier, seed):
    """Unit check of the extended-L2 helpers: real get_subcluster_range_type(q, entry, bitmap, sc_from) on a fully
    symbolic 128-bit extended L2 entry, sc_from enumerated. Every sub-cluster of the returned range must have the
    class the specification assigns (stored / zero / unallocated / compressed), the range is non-empty and stays
    inside the cluster. cfg: sc_from, data_file."""
    import types

    sc_from = cfg["sc_from"]
    dfile = bool(cfg.get("data_file"))
    core.set_width(cfg.get("W", 72))
    P = spec.Params(16, True, dfile)
    m = load(stubs.ZlibStub(out_len=lambda k, mx: mx), summaries=False)
    ctx = Ctx(prop, "qcow2.subcluster_range", cfg, tier, seed, engine_kw=dict(max_decisions=400))
    T = m.QCow2SubclusterType
    CLS = {T.QCOW2_SUBCLUSTER_COMPRESSED: 3, T.QCOW2_SUBCLUSTER_ZERO_PLAIN: 1, T.QCOW2_SUBCLUSTER_ZERO_ALLOC: 1,
           T.QCOW2_SUBCLUSTER_NORMAL: 2, T.QCOW2_SUBCLUSTER_UNALLOCATED_PLAIN: 0, T.QCOW2_SUBCLUSTER_UNALLOCATED_ALLOC: 0}

    def body(E, ctx):
        e = E.var("l2_entry", 0, (1 << 64) - 1)
        bm = E.var("l2_bitmap", 0, (1 << 64) - 1)
        E.assume(spec.wellformed_entry(e, bm, P))
        q = types.SimpleNamespace(has_subclusters=True, has_data_file=dfile, subclusters_per_cluster=32)
        i = E.var("i", 0, 31)
        vars_ = dict(l2_entry=e, l2_bitmap=bm, i=i)

        def build(model):
            return dict(entry="qcow2_subcluster_range", params=dict(data_file=dfile), files={},
                        call=["range", mi(model, e), mi(model, bm), sc_from])

        def expect(model, desc):
            # expectation: a range all of whose sub-clusters have one specification class
            ev, bv_ = mi(model, e), mi(model, bm)
            return dict(spec_classes=[int(spec_class(ev, bv_, k, P)) for k in range(32)], sc_from=sc_from)

        from harness.common import Scenario
        ctx.scenario = Scenario(vars_, build, expect)
        sc_type, count = m.get_subcluster_range_type(q, e, bm, sc_from)
        if sc_type not in CLS:
            raise AssertionError(f"unexpected sub-cluster type {sc_type} for a well-formed entry")
        cls = CLS[sc_type]
        bad = [count < 1, sc_from + count > 32,
               core.sym_and(i >= sc_from, i < sc_from + count, spec_class(e, bm, i, P) != cls)]
        ctx.obligation(bad, "sub-cluster range has the wrong class or extent")

    return ctx.run(body, cov_files=[SRC, CSRC])


def spec_class(e, bm, i, P):
    """Specification class of sub-cluster i of an extended L2 entry: 3 compressed, 1 reads as zeros, 2 stored, 0 unallocated."""
    from oracles.mem import ite

    compressed = ((e >> 62) & 1) == 1
    host = e & spec.OFFSET_MASK
    alloc = core.sym_or(host != 0, ((e >> 63) & 1) == 1) if P.data_file else host != 0
    abit = ((bm >> i) & 1) == 1
    zbit = ((bm >> (i + 32)) & 1) == 1
    return ite(compressed, 3, ite(zbit, 1, ite(core.sym_and(alloc, abit), 2, 0)))

"""C10 - Descriptor-driven multi-extent assembly and size accounting."""
from __future__ import annotations

from harness import assembly

META = dict(
    level="model_checking",
    bounds="extent-line grammar: language inclusion spec(T) in L(RE_EXTENT_DESCRIPTOR) for T in {FLAT, VMFS, SPARSE, VMFSSPARSE, "
           "SESPARSE, ZERO}, line length <= 64, any file name without an embedded quote (BMP without U+0000), optional offset; "
           "group unambiguity for conformant lines (<= 48 chars). Assembly: VMDK([handles]) with 1..3 extents (sparse and raw) "
           "of symbolic sector counts, request symbolic incl. the tail over-read; StorageStream with 1..3 storages in any "
           "order",
    outside=["the XML form of Parallels storages (expat)", "opening the extent files named by a descriptor (stubbed paths)",
             "more than 3 extents"],
    assumptions=["z3's sequence/regex theory; re._parser parses the pattern as the re module compiles it",
                 "extent readers present some byte array of sector_count sectors (their own correctness is C02)"],
    must_reach=[(assembly.VMDK_SRC, r"sectors_read\.append\(disk\.read_sectors")],
)


def tasks(tier):
    out = [("vmdk", dict(n=1, tail=True)), ("vmdk", dict(n=2, tail=True)), ("vmdk", dict(n=3, tail=True)),
           ("vmdk", dict(n=3, kinds=["raw", "sparse", "raw"])),
           ("storage", dict(n=1, tail=True)), ("storage", dict(n=2, order=[1, 0], tail=True)),
           ("storage", dict(n=3, order=[2, 0, 1], tail=True))]
    return out


def run(hname, cfg, tier, seed):
    if hname == "vmdk":
        return assembly.vmdk_assembly_task("C10", cfg, tier, seed)
    return assembly.storage_stream_task("C10", cfg, tier, seed)


def precheck(tier, seed):
    g = assembly.grammar_check(seed)
    return dict(errors=g["errors"], violations=g["violations"], obligations=g["obligations"], discharged=g["discharged"],
                samples=g["samples"], queries=g["queries"], solver_s=g.get("solver_s", 0.0), states=g["obligations"],
                transitions=g["obligations"], summary="extent-line grammar inclusion decided in z3's regex theory")

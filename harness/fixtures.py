"""Fixture validation of the oracles: every sample image under /repo/tests/data of the relevant format is read
through the oracle (concrete back end) and through the real reader; a disagreement means the oracle - my reading of the
specification - is wrong, or the reader is: it is reported as a harness error (never as a finding) unless the reader
also disagrees with the fixture's known content."""
from __future__ import annotations

import gzip
import io
import random

from oracles.mem import ConcMem

DATA = "/repo/tests/data"


def load_gz(rel):
    with gzip.open(f"{DATA}/{rel}", "rb") as fh:
        return fh.read()


def compare(name, real_read, oracle_byte, size, units, seed, errors, nsamples=48, span=4096):
    """real_read(offset, length) -> bytes; oracle_byte(g) -> int. Samples offsets around unit boundaries and at random."""
    rng = random.Random(seed)
    offs = {0, max(size - span, 0)}
    for u in units:
        k = u
        n = 0
        while k < size and n < 12:
            offs.update({max(k - 512, 0), k})
            k += u * max(1, (size // u) // 12)
            n += 1
    for _ in range(nsamples):
        offs.add(rng.randrange(0, max(size // 512, 1)) * 512)
    checked = 0
    for off in sorted(offs):
        ln = min(span, size - off)
        if ln <= 0:
            continue
        got = real_read(off, ln)
        for k in sorted({0, ln - 1} | {rng.randrange(ln) for _ in range(12)}):
            exp = int(oracle_byte(off + k))
            if k >= len(got) or got[k] != exp:
                errors.append(f"fixture {name}: oracle and real reader disagree at guest offset {off + k}: "
                              f"reader {got[k] if k < len(got) else None} oracle {exp}")
                return checked
        checked += 1
    return checked


def mem_of(data: bytes):
    return ConcMem(io.BytesIO(data))

"""Symbolic execution of the real VMDK extent readers (vmdk.py: VMDK.__init__/_read/read_sectors, SparseDisk.*,
SparseExtentHeader, RawDisk)."""
from __future__ import annotations

import random

from harness.common import Ctx, byte_obligation, fault_finish, fault_mode, io_cases, mi, read_scenario
from oracles import vmdk as spec
from oracles.mem import Shifted, SymMem, SymOpaque
from symx import core, files, layouts, loader, replay, stubs
from symx.files import SymFile
from symx.sbytes import Seg, SymBytes

SRC = loader.repo_path("dissect/hypervisor/disk/vmdk.py")
S = 512


class ParentDisk:
    """Parent layer (C07): presents an opaque byte array, sector addressed with absolute sectors."""

    def __init__(self):
        self.calls = []

    def __bool__(self):
        return True

    def read_sectors(self, sector, count):
        self.calls.append((sector, count))
        return SymBytes([Seg("opaque", "parent", sector * S, count * S)])


def load(zl):
    m = loader.load(SRC)
    m.lru_cache = loader.identity_lru_cache
    m.c_vmdk = layouts.CStructProxy(m.c_vmdk)
    m.ctypes = stubs.CtypesStub
    m.zlib = zl
    return m


def read_task(prop, cfg, tier, seed):
    """cfg: kind ('kdmv'|'kdmv_footer'|'cowd'|'sesparse'|'flat'), grain_size, ngte, flags, gt_sectors (sesparse),
    n_grains, tail, has_parent, via ('vmdk'|'disk')"""
    kind = cfg["kind"]
    gs = cfg.get("grain_size", 128)
    ngte = 4096 if kind == "cowd" else cfg.get("ngte", 512)
    flags = cfg.get("flags", 0)
    gt_sectors = cfg.get("gt_sectors", 64)
    N = cfg.get("n_grains", 1)
    has_parent = bool(cfg.get("has_parent"))
    core.set_width(cfg.get("W", 80 if kind in ("sesparse", "kdmv_footer") else 72))
    zlog = []
    zl = stubs.ZlibStub(out_len=(lambda key, mx: (mx if mx else (1 << 40))) if cfg.get("fault") else (lambda key, mx: gs * S), log=zlog, lenient=bool(cfg.get("fault")))
    m = load(zl)
    ctx = Ctx(prop, f"vmdk.{kind}", cfg, tier, seed, engine_kw=dict(max_decisions=cfg.get("max_decisions", 1200)))
    rng = random.Random(seed)
    fault = bool(cfg.get("fault"))
    if fault:
        fault_mode(ctx)
    core_sz = replay.deflate_core_size(gs * S) + 8
    maxcount = cfg.get("max_count", N * gs)

    def body(E, ctx):
        del zlog[:]
        fsize = E.var("fsize", 2048, 1 << 60)
        fh = SymFile("img", size=fsize, eof=True)
        mem = SymMem("img")
        par = SymOpaque("parent") if has_parent else None
        vars_ = dict(fsize=fsize)
        cap = None
        if kind in ("kdmv", "kdmv_footer"):
            for k, c in enumerate(b"KDMV"):
                E.assume(files.byte_at("img", k) == c)
            E.pins = {("VMDKSparseExtentHeader", "grain_size"): gs, ("VMDKSparseExtentHeader", "num_grain_table_entries"): ngte,
                      ("VMDKSparseExtentHeader", "descriptor_size"): 0, ("VMDKSparseExtentHeader", "flags"): flags}
            gd0 = files.word_at("img", 56, 8, "le")
            if kind == "kdmv":
                h = 0
                gd_off = E.assume_range(gd0, 1, 1 << 50)
            else:
                E.assume(gd0 == spec.GD_AT_END)
                h = fsize - 1024
                for k, c in enumerate(b"KDMV"):
                    E.assume(files.byte_at("img", h + k) == c)
                gd_off = E.assume_range(files.word_at("img", h + 56, 8, "le"), 1, 1 << 50)
            cap = E.assume_range(files.word_at("img", h + 12, 8, "le"), 1, 1 << 50)
            gd_n = (cap + gs * ngte - 1) // (gs * ngte)
            if not fault:
                E.assume(gd_off * S + 4 * gd_n <= fsize)
            vars_.update(gd_off=gd_off)

            def gbyte(g, mm, pp, fs):
                return spec.kdmv_guest_byte(g, fs, gs, ngte, flags, mm, pp)
        elif kind == "cowd":
            for k, c in enumerate(b"COWD"):
                E.assume(files.byte_at("img", k) == c)
            E.pins = {("COWDSparseExtentHeader", "grain_size"): gs, ("COWDSparseExtentHeader", "flags"): 3}
            cap = E.assume_range(files.word_at("img", 12, 4, "le"), 1, (1 << 32) - 1)
            gd_off = E.assume_range(files.word_at("img", 20, 4, "le"), 1, (1 << 32) - 1)
            gd_n = files.word_at("img", 24, 4, "le")
            E.assume(gd_n * (gs * 4096) >= cap)
            E.assume(gd_off * S + 4 * gd_n <= fsize)
            vars_.update(gd_off=gd_off)

            def gbyte(g, mm, pp, fs):
                return spec.cowd_guest_byte(g, gs, mm, pp)
        elif kind == "sesparse":
            E.assume(files.word_at("img", 0, 8, "le") == spec.SESPARSE_MAGIC)
            E.pins = {("VMDKSESparseConstHeader", "grain_size"): gs, ("VMDKSESparseConstHeader", "grain_table_size"): gt_sectors,
                      ("VMDKSESparseConstHeader", "flags"): 0}
            cap = E.assume_range(files.word_at("img", 16, 8, "le"), 1, 1 << 50)
            gd_off = E.assume_range(files.word_at("img", 128, 8, "le"), 1, 1 << 40)
            gd_sz = E.assume_range(files.word_at("img", 136, 8, "le"), 1, 1 << 30)
            gts_off = E.assume_range(files.word_at("img", 144, 8, "le"), 1, 1 << 40)
            grains_off = E.assume_range(files.word_at("img", 192, 8, "le"), 2, 1 << 40)  # the header occupies sector 0
            per_gt = gt_sectors * S // 8
            E.assume((gd_sz * S // 8) * (per_gt * gs) >= cap)
            E.assume((gd_off + gd_sz) * S <= fsize)
            vars_.update(gd_off=gd_off, gts_off=gts_off, grains_off=grains_off, gd_sectors=gd_sz)

            def gbyte(g, mm, pp, fs):
                return spec.sesparse_guest_byte(g, mm, gs, gt_sectors, pp)
        else:
            raise ValueError(kind)
        vars_["capacity"] = cap
        sector = E.var("sector", 0, 1 << 50)
        count = E.var("count", 1, maxcount)
        E.assume(sector < cap)
        if not cfg.get("tail"):
            E.assume(sector + count <= cap)
        # everything the specification refers to for the touched grains lies inside the file
        g0 = sector // gs
        for k in range(0 if fault else (maxcount + gs - 1) // gs + 1):
            gr = g0 + k
            if kind in ("kdmv", "kdmv_footer", "cowd"):
                gt = mem.word(gd_off * S + 4 * (gr // ngte), 4, "le")
                E.assume(core.sym_or(gt == 0, gt * S + 4 * ngte <= fsize))
                e = mem.word(gt * S + 4 * (gr % ngte), 4, "le")
                if flags & spec.FLAG_COMPRESSED:
                    hl = 12 if flags & spec.FLAG_EMBEDDED_LBA else 4
                    csz = mem.word(e * S + (8 if hl == 12 else 0), 4, "le")
                    E.assume(core.sym_or(gt == 0, e <= 1, core.sym_and(csz >= 1, e * S + hl + csz <= fsize)))
                else:
                    E.assume(core.sym_or(gt == 0, e <= 1, (e + gs) * S <= fsize))
            else:
                gde = mem.word(gd_off * S + 8 * (gr // per_gt), 8, "le")
                has_gt = core.sym_and(gde != 0, (gde >> 32) == 0x10000000)
                gti = gde % (1 << 32)
                E.assume(core.sym_or(core.sym_not(has_gt), (gts_off + (gti + 1) * gt_sectors) * S <= fsize))
                gte = mem.word((gts_off + gti * gt_sectors) * S + 8 * (gr % per_gt), 8, "le")
                typ = gte >> 60
                idx = ((gte >> 48) & 0xFFF) + ((gte % (1 << 48)) << 12)
                E.assume(core.sym_or(core.sym_not(has_gt), typ <= 2,
                                     core.sym_and(typ == 3, idx <= 1 << 40, (grains_off + (idx + 1) * gs) * S <= fsize)))
        so = 0
        if cfg.get("sector_offset"):
            # the extent is one of several: it starts at an arbitrary absolute sector of the assembled disk
            so = E.var("sector_offset", 0, 1 << 40)
            vars_["sector_offset"] = so
            if par is not None:
                par = Shifted(par, so * S)
        j = E.var("j", 0, 1 << 60)
        vars_.update(sector=sector, count=count, j=j)
        explen = core.sym_min(count, cap - sector) * S if cfg.get("tail") else count * S

        def spec_at(model, g, mems, ops):
            pp = ops.get("parent")
            if pp is not None and cfg.get("sector_offset"):
                pp = Shifted(pp, mi(model, so) * S)
            return gbyte(g, mems["img"], pp, mi(model, fsize))

        def post_files(model, d):
            plains = {}
            for (fname, off, ln, wbits, mx) in zlog:
                o, l = mi(model, off), mi(model, ln)
                if fault:
                    # a decompression bomb: 64 allocation units of zeros in a stream of exactly the stored length
                    plain, stream = replay.deflate_exact(o, 0, l, wbits, plain=bytes(64 * (gs * S)))
                    if fname in d["files"]:
                        d["files"][fname]["patches"].append([o, stream.hex()])
                    d["_fault_expect"] = dict(max_inflate=gs * S)
                    continue
                plain, stream = replay.deflate_exact(o, gs * S, l, wbits)
                d["files"][fname]["patches"].append([o, stream.hex()])
                plains[o] = plain

            def inflate(off, ln, wbits, maxlen, idx):
                if off not in plains:
                    plains[off] = replay._plain(off, gs * S)
                return plains[off][idx] if idx < len(plains[off]) else 0
            d["_inflate"] = inflate

        via = cfg.get("via", "vmdk")
        ctx.scenario = read_scenario(
            ctx, E, vars_, entry="vmdk_sparse", params=lambda mo: dict(via=via, has_parent=has_parent, sector_offset=mi(mo, so)),
            call=lambda mo: (["read_sectors", mi(mo, so) + mi(mo, sector), mi(mo, count)] if via == "disk" else
                             ["_read", mi(mo, sector) * S, mi(mo, count) * S]),
            total=lambda mo: mi(mo, explen), g0=lambda mo: mi(mo, sector) * S, spec_at=spec_at, unit=gs * S, rng=rng, maxlen=(lambda mo: mi(mo, count * S)) if cfg.get("tail") else None, j=j,
            opaque=("parent",) if has_parent else (), sizes=dict(img=lambda mo: mi(mo, fsize)),
            prefer=[cap <= 1 << 34, count * S <= 16 << 20] + ([vars_["gd_sectors"] <= 4096] if kind == "sesparse" else []),
            post_files=post_files)
        ctx.scenario.wide = [sector >= 1 << 32, gd_off * S >= 1 << 40]
        if via == "disk":
            disk = m.SparseDisk(fh, parent=ParentDisk() if has_parent else None, offset=so * S, sector_offset=so)
            size_ok = disk.size == cap * S
            res = disk.read_sectors(so + sector, count)
        else:
            obj = m.VMDK(fh)
            if has_parent:
                obj.disks[0].parent = ParentDisk()
            size_ok = obj.size == cap * S
            res = obj._read(sector * S, count * S)
        sc = ctx.scenario
        for n1, (f1, o1, l1, _, _) in enumerate(zlog):
            for (f2_, o2, l2, _, _) in zlog[n1 + 1:]:
                if f1 == f2_:
                    # two compressed units either are the same range or do not overlap
                    sc.extra.append(core.sym_or(core.sym_and(o1 == o2, l1 == l2), o1 + l1 <= o2, o2 + l2 <= o1))
        for (fname, off, ln, wbits, mx) in zlog:
            sc.need.append(ln >= core_sz + 32)

        def inflate_clear():
            # no recorded byte/word view (of the implementation or of the oracle) may lie inside a compressed range
            out = []
            for (fname, off, ln, wbits, mx) in zlog:
                for kd, f2, n2, e2, a2, v2, ai2 in E.apps:
                    if f2 == fname:
                        a = core.SymInt(a2, ai2, 0, 1 << 70)
                        out.append(core.sym_or(a + n2 <= off, a >= off + ln))
            return out

        sc.extra_fn = inflate_clear
        if fault:
            return fault_finish(ctx, E, res, count * S, gs * S, zlog, gs * S)
        sv = gbyte(sector * S + j, mem, par, fsize)
        bad = byte_obligation(res, j, explen, sv, extra=[core.sym_not(size_ok)], maxlen=count * S if cfg.get("tail") else None)
        if cfg.get("io"):
            ng = (maxcount + gs - 1) // gs + 1
            esz = 8 if kind == "sesparse" else 4
            gtn = (gt_sectors * S // 8) if kind == "sesparse" else ngte
            gd_bytes = (vars_["gd_sectors"] * S) if kind == "sesparse" else esz * gd_n
            bad += io_cases(fh.reads, 16 + 2 * 512 + gd_bytes + ng * (esz * gtn + (gs + 2) * S) + count * S, 8 + 4 * ng)
        if ctx.obligation(bad, "read differs from the guest-visible content"):
            ctx.witness()

    return ctx.run(body, cov_files=[SRC])


def flat_task(prop, cfg, tier, seed):
    """RawDisk / flat extent through VMDK(fh): file bytes at the same offset."""
    core.set_width(72)
    m = load(stubs.ZlibStub(out_len=lambda k, mx: mx))
    ctx = Ctx(prop, "vmdk.flat", cfg, tier, seed, engine_kw=dict(max_decisions=300))
    rng = random.Random(seed)

    def body(E, ctx):
        fsize = E.var("fsize", 512, 1 << 60)
        E.assume(fsize % S == 0)
        fh = SymFile("img", size=fsize, eof=True)
        # anything that is not a descriptor or a sparse extent magic
        E.assume(files.byte_at("img", 0) == 0xEB)
        sector = E.var("sector", 0, 1 << 51)
        count = E.var("count", 1, cfg.get("max_count", 1 << 15))
        E.assume(sector * S < fsize)
        if not cfg.get("tail"):
            E.assume((sector + count) * S <= fsize)
        j = E.var("j", 0, 1 << 60)
        vars_ = dict(fsize=fsize, sector=sector, count=count, j=j)
        explen = core.sym_min(count * S, fsize - sector * S)
        mem = SymMem("img")
        ctx.scenario = read_scenario(
            ctx, E, vars_, entry="vmdk_sparse", params=lambda mo: dict(via="vmdk", has_parent=False),
            call=lambda mo: ["_read", mi(mo, sector) * S, mi(mo, count) * S], total=lambda mo: mi(mo, explen),
            g0=lambda mo: mi(mo, sector) * S, spec_at=lambda mo, g, mems, ops: mems["img"].byte(g), unit=S, rng=rng, j=j,
            sizes=dict(img=lambda mo: mi(mo, fsize)), prefer=[count * S <= 16 << 20])
        obj = m.VMDK(fh)
        res = obj._read(sector * S, count * S)
        bad = byte_obligation(res, j, explen, mem.byte(sector * S + j), extra=[obj.size != fsize])
        if ctx.obligation(bad, "flat extent read differs from the file content"):
            ctx.witness()

    return ctx.run(body, cov_files=[SRC])

"""Symbolic execution of the real VHD reader (vhd.py: read_footer, VHD.__init__, FixedDisk, DynamicDisk, BAT)."""
from __future__ import annotations

import random

import z3

from harness.common import Ctx, byte_obligation, fault_finish, fault_mode, io_cases, mi, read_scenario
from oracles.mem import SymMem
from oracles import vhd as spec
from symx import core, files, layouts, loader, stubs
from symx.core import bvval as V
from symx.files import SymFile

SRC = loader.repo_path("dissect/hypervisor/disk/vhd.py")
U64 = (1 << 64) - 1


def load():
    m = loader.load(SRC)
    m.lru_cache = loader.identity_lru_cache
    m.c_vhd = layouts.CStructProxy(m.c_vhd)
    m.struct = stubs.StructModule
    # objects captured at class-creation time
    for name in dir(m):
        cls = getattr(m, name)
        if isinstance(cls, type) and cls.__module__ == m.__name__:
            for k, v in list(vars(cls).items()):
                if type(v).__name__ == "Struct" and hasattr(v, "format"):
                    setattr(cls, k, stubs.StructStub(v.format))
    return m


def read_task(prop, cfg, tier, seed):
    """cfg: kind ('fixed'|'dynamic'), block_size, n_blocks, tail"""
    kind = cfg["kind"]
    bs = cfg.get("block_size", 1 << 21)
    spb = bs // 512
    N = cfg.get("n_blocks", 1)
    core.set_width(cfg.get("W", 80))
    m = load()
    ctx = Ctx(prop, f"vhd.{kind}", cfg, tier, seed, engine_kw=dict(max_decisions=cfg.get("max_decisions", 400)))
    rng = random.Random(seed)
    fault = bool(cfg.get("fault"))
    if fault:
        fault_mode(ctx)
    maxlen = N * bs if kind == "dynamic" else cfg.get("max_len", 1 << 24)

    def body(E, ctx):
        E.pins = {("dynamic_header", "block_size"): bs}
        fsize = E.var("fsize", 1536, 1 << 62)
        fh = SymFile("img", size=fsize, eof=True)
        feat = files.word_at("img", fsize - 512 + 8, 4, "be")
        legacy = (feat & 2) == 0
        if cfg.get("legacy") is not None:
            E.assume(legacy if cfg["legacy"] else core.sym_not(legacy))
        fp = core.ite(legacy, fsize - 511, fsize - 512)
        data_offset = files.word_at("img", fp + 16, 8, "be")
        cur = files.word_at("img", fp + 48, 8, "be")
        E.assume(cur >= 512)
        E.assume(cur <= 1 << 48)
        E.assume(cur % 512 == 0)
        vars_ = dict(fsize=fsize, current_size=cur, data_offset=data_offset)
        offset = E.var("offset", 0, 1 << 48)
        length = E.var("length", 512, maxlen)
        E.assume(offset % 512 == 0)
        E.assume(length % 512 == 0)
        E.assume(offset < cur)
        if not cfg.get("tail"):
            E.assume(offset + length <= cur)
        if kind == "fixed":
            E.assume(data_offset == U64)
            if not fault:
                E.assume(cur + 511 <= fsize)  # data followed by the footer
        else:
            E.assume(data_offset <= 1 << 62)
            table_offset = files.word_at("img", data_offset + 16, 8, "be")
            max_entries = files.word_at("img", data_offset + 28, 4, "be")
            E.assume(table_offset <= 1 << 62)
            if not fault:
                E.assume(max_entries * bs >= cur)
                # every structure the specification refers to lies inside the file
                E.assume(data_offset + 1024 <= fsize)
                E.assume(table_offset + 4 * max_entries <= fsize)
            b0 = (offset // 512) // spb
            for k in range(N + 1):
                e = files.word_at("img", table_offset + 4 * (b0 + k), 4, "be")
                if not fault:
                    E.assume(e != 0)
                    E.assume(core.sym_or(e == 0xFFFFFFFF, (e + spec.bitmap_sectors(bs) + spb) * 512 <= fsize))
            vars_.update(table_offset=table_offset, max_entries=max_entries)
        j = E.var("j", 0, 1 << 50)
        vars_.update(offset=offset, length=length, j=j)
        explen = core.sym_min(length, cur - offset) if cfg.get("tail") else length
        mem = SymMem("img")

        def spec_at(model, g, mems, ops):
            return spec.guest_byte(g, mi(model, fsize), bs, mems["img"], kind == "dynamic")

        ctx.scenario = read_scenario(
            ctx, E, vars_, entry="vhd", params=lambda mo: {}, call=lambda mo: ["_read", mi(mo, offset), mi(mo, length)],
            total=lambda mo: mi(mo, explen), g0=lambda mo: mi(mo, offset), spec_at=spec_at, unit=bs, rng=rng, maxlen=(lambda mo: mi(mo, length)) if cfg.get("tail") else None, j=j,
            prefer=[length <= 16 << 20], sizes=dict(img=lambda mo: mi(mo, fsize)))
        ctx.scenario.wide = [offset >= 1 << 40] + ([vars_["table_offset"] >= 1 << 40] if kind == "dynamic" else [])
        obj = m.VHD(fh)
        res = obj._read(offset, length)
        if fault:
            return fault_finish(ctx, E, res, length, bs)
        sv = spec.guest_byte(offset + j, fsize, bs, mem, kind == "dynamic")
        bad = byte_obligation(res, j, explen, sv, extra=[obj.size != cur], maxlen=length if cfg.get("tail") else None)
        if cfg.get("io"):
            # two footer reads, the dynamic header, 4 bytes of BAT per touched block, the data
            bad += io_cases(fh.reads, 1023 + 1024 + 4 * (N + 1) + length, 3 + 2 * (N + 1))
        if ctx.obligation(bad, "read differs from the guest-visible content"):
            ctx.witness()

    return ctx.run(body, cov_files=[SRC])

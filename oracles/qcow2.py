"""QCOW2 guest-content oracle, written from QEMU docs/interop/qcow2.txt (header, L1/L2 entry layout, standard and
extended L2 entries, compressed cluster descriptor). Big-endian. Runs on symbolic or concrete integers."""
from __future__ import annotations

from oracles.mem import ite
from symx import core

MAGIC = 0x514649FB
OFFSET_MASK = 0x00FFFFFFFFFFFE00  # bits 9..55
INCOMPAT_DATA_FILE = 1 << 2
INCOMPAT_COMPRESSION = 1 << 3
INCOMPAT_EXTL2 = 1 << 4


class Params:
    def __init__(self, cluster_bits, ext_l2, data_file):
        self.cb = cluster_bits
        self.cs = 1 << cluster_bits
        self.ext = ext_l2
        self.es = 16 if ext_l2 else 8
        self.l2n = self.cs // self.es
        self.data_file = data_file
        self.x = 62 - (cluster_bits - 8)


def l2_entry_addr(g, l1_off, P, mem):
    l1i = g // (P.cs * P.l2n)
    l1e = mem.word(l1_off + 8 * l1i, 8, "be")
    l2off = l1e & OFFSET_MASK
    l2i = (g // P.cs) % P.l2n
    return l1i, l2off, l2off + P.es * l2i


def compressed_range(e, P):
    coff = e & ((1 << P.x) - 1)
    nb = (e >> P.x) & ((1 << (P.cb - 8)) - 1)
    csize = (nb + 1) * 512 - (coff % 512)
    return coff, csize


def guest_byte(g, l1_off, l1_size, P, mem, data, backing=None, backing_size=0):
    """mem: the qcow2 file; data: where guest clusters live (the same file, or the external data file);
    backing: memory of the backing image (or None), backing_size its length."""
    l1i, l2off, ea = l2_entry_addr(g, l1_off, P, mem)
    e = mem.word(ea, 8, "be")
    inoff = g % P.cs
    no_l2 = core.sym_or(l1i >= l1_size, l2off == 0)
    compressed = ((e >> 62) & 1) == 1
    coff, csize = compressed_range(e, P)
    comp_val = mem.inflate(coff, csize, -12, P.cs, inoff)
    host = e & OFFSET_MASK
    if P.data_file:
        cluster_alloc = core.sym_or(host != 0, ((e >> 63) & 1) == 1)
    else:
        cluster_alloc = host != 0
    stored = data.byte(host + inoff)
    if backing is not None:
        unalloc = ite(g < backing_size, backing.byte(g), 0)
    else:
        unalloc = 0
    if not P.ext:
        zero = (e & 1) == 1
        val = ite(zero, 0, ite(cluster_alloc, stored, unalloc))
    else:
        bm = mem.word(ea + 8, 8, "be")
        sc = inoff // (P.cs // 32)
        abit = ((bm >> sc) & 1) == 1
        zbit = ((bm >> (sc + 32)) & 1) == 1
        val = ite(zbit, 0, ite(core.sym_and(cluster_alloc, abit), stored, unalloc))
    return ite(no_l2, unalloc, ite(compressed, comp_val, val))


def wellformed_entry(e, bm, P):
    """What the specification lets a reader rely on for one L2 entry (and its bitmap word for extended L2)."""
    compressed = ((e >> 62) & 1) == 1
    host = e & OFFSET_MASK
    conds = []
    if P.data_file:
        conds.append(core.sym_not(compressed))  # compressed clusters cannot be used with an external data file
    if P.ext:
        lo = bm % (1 << 32)
        hi = bm >> 32
        cluster_alloc = core.sym_or(host != 0, ((e >> 63) & 1) == 1) if P.data_file else host != 0
        # no sub-cluster is both allocated and zero; unallocated clusters have no allocation bits;
        # compressed clusters have an all-zero bitmap; bit 0 of the entry is reserved in extended entries
        conds.append(core.sym_or(compressed, (lo & hi) == 0))
        conds.append(core.sym_or(compressed, cluster_alloc, lo == 0))
        conds.append(core.sym_or(core.sym_not(compressed), bm == 0))
        conds.append((e & 1) == 0)
    return core.sym_and(*conds) if conds else True

"""VHDX guest-content oracle, written from [MS-VHDX] section 2 (BAT interleaving, chunk ratio, payload block
states, sector bitmap bit order). Independent of the implementation: a z3 term over the file UFs."""
from __future__ import annotations

import z3

from symx import files
from symx.core import S, bvval as V

MB = 1 << 20
# payload block states
NOT_PRESENT, UNDEFINED, ZERO, UNMAPPED, FULLY_PRESENT, PARTIALLY_PRESENT = 0, 1, 2, 3, 6, 7


def zx(t):
    return z3.ZeroExt(S.W - t.size(), t) if t.size() < S.W else t


def geometry(block_size, sector_size):
    spb = block_size // sector_size
    cr = ((1 << 23) * sector_size) // block_size
    return spb, cr


def payload_index(blk, cr):
    return blk + z3.UDiv(blk, V(cr))


def bitmap_index(blk, cr):
    c = z3.UDiv(blk, V(cr))
    return (c + 1) * V(cr) + c


def guest_byte(g, bat_off, block_size, sector_size, has_parent, fname="img", parent="parent"):
    """8-bit value of guest byte g (W-bit BV terms g, bat_off)."""
    W64 = files.word_uf(fname, 8, "le")[0]
    B = files.byte_uf(fname)[0]
    P = files.opaque_uf(parent)[0]
    spb, cr = geometry(block_size, sector_size)
    s = z3.UDiv(g, V(sector_size))
    blk = z3.UDiv(s, V(spb))
    sib = z3.URem(s, V(spb))
    e = W64(bat_off + V(8) * payload_index(blk, cr))
    state = z3.Extract(2, 0, e)
    mb = zx(z3.Extract(63, 20, e))
    data = B(mb * V(MB) + sib * V(sector_size) + z3.URem(g, V(sector_size)))
    zero = z3.BitVecVal(0, 8)
    from_parent = P(g) if has_parent else zero
    sbe = W64(bat_off + V(8) * bitmap_index(blk, cr))
    sb_mb = zx(z3.Extract(63, 20, sbe))
    bit = z3.URem(blk, V(cr)) * V(spb) + sib
    bm_byte = B(sb_mb * V(MB) + z3.LShR(bit, V(3)))
    present = z3.Extract(0, 0, z3.LShR(bm_byte, z3.Extract(7, 0, bit) & z3.BitVecVal(7, 8))) == z3.BitVecVal(1, 1)
    return z3.If(state == FULLY_PRESENT, data,
                 z3.If(state == NOT_PRESENT, from_parent,
                       z3.If(state == PARTIALLY_PRESENT, z3.If(present, data, from_parent), zero)))


def valid_payload_state(st, differencing):
    from symx import core

    ok = [st == NOT_PRESENT, st == UNDEFINED, st == ZERO, st == UNMAPPED, st == FULLY_PRESENT]
    if differencing:
        ok.append(st == PARTIALLY_PRESENT)
    return core.sym_or(*ok)

"""VHDX guest-content oracle, written from [MS-VHDX] section 2 (BAT interleaving, chunk ratio, payload block
states, sector bitmap bit order). Independent of the implementation; runs on symbolic or concrete integers."""
from __future__ import annotations

from oracles.mem import ite
from symx import core

MB = 1 << 20
# payload block states
NOT_PRESENT, UNDEFINED, ZERO, UNMAPPED, FULLY_PRESENT, PARTIALLY_PRESENT = 0, 1, 2, 3, 6, 7


def geometry(block_size, sector_size):
    spb = block_size // sector_size
    cr = ((1 << 23) * sector_size) // block_size
    return spb, cr


def payload_index(blk, cr):
    return blk + blk // cr


def bitmap_index(blk, cr):
    c = blk // cr
    return (c + 1) * cr + c


def guest_byte(g, bat_off, block_size, sector_size, mem, parent=None):
    """value of guest byte g; parent: memory of the parent image or None"""
    spb, cr = geometry(block_size, sector_size)
    s = g // sector_size
    blk = s // spb
    sib = s % spb
    e = mem.word(bat_off + 8 * payload_index(blk, cr), 8, "le")
    state = e % 8
    mb = e >> 20
    data = mem.byte(mb * MB + sib * sector_size + g % sector_size)
    from_parent = parent.byte(g) if parent is not None else 0
    if parent is not None:
        sbe = mem.word(bat_off + 8 * bitmap_index(blk, cr), 8, "le")
        bit = (blk % cr) * spb + sib
        bm = mem.byte((sbe >> 20) * MB + bit // 8)
        present = ((bm >> (bit % 8)) & 1) == 1
        partial = ite(present, data, from_parent)
    else:
        partial = 0
    return ite(state == FULLY_PRESENT, data,
               ite(state == NOT_PRESENT, from_parent,
                   ite(state == PARTIALLY_PRESENT, partial, 0)))


def valid_payload_state(st, differencing):
    ok = [st == NOT_PRESENT, st == UNDEFINED, st == ZERO, st == UNMAPPED, st == FULLY_PRESENT]
    if differencing:
        ok.append(st == PARTIALLY_PRESENT)
    return core.sym_or(*ok)

"""VHD guest-content oracle, from the Microsoft Virtual Hard Disk Image Format Specification 1.0
(footer, dynamic disk header, BAT, sector bitmap padded to a sector boundary). Big-endian."""
from __future__ import annotations

import z3

from symx import files
from symx.core import S, bvval as V

SECTOR = 512


def zx(t):
    return z3.ZeroExt(S.W - t.size(), t) if t.size() < S.W else t


def footer_pos(fsize, fname="img"):
    """Address of the footer: the last 512 bytes; pre-2004 images have a 511-byte footer, recognised by the
    reserved feature bit (always 1) not being where a 512-byte footer would have it."""
    W32 = files.word_uf(fname, 4, "be")[0]
    feat = W32(fsize - V(512) + V(8))
    return z3.If(z3.Extract(1, 1, feat) == z3.BitVecVal(1, 1), fsize - V(512), fsize - V(511))


def fields(fsize, fname="img"):
    W64 = files.word_uf(fname, 8, "be")[0]
    W32 = files.word_uf(fname, 4, "be")[0]
    fp = footer_pos(fsize, fname)
    data_offset = W64(fp + V(16))
    current_size = W64(fp + V(48))
    dh = zx(data_offset)
    table_offset = W64(dh + V(16))
    max_entries = W32(dh + V(28))
    block_size = W32(dh + V(32))
    return dict(footer=fp, data_offset=data_offset, current_size=current_size, table_offset=table_offset,
                max_entries=max_entries, block_size=block_size)


def bitmap_sectors(block_size):
    spb = block_size // SECTOR
    bitmap_bytes = (spb + 7) // 8
    return (bitmap_bytes + SECTOR - 1) // SECTOR


def guest_byte(g, fsize, block_size, fname="img"):
    B = files.byte_uf(fname)[0]
    W32 = files.word_uf(fname, 4, "be")[0]
    f = fields(fsize, fname)
    fixed = f["data_offset"] == z3.BitVecVal((1 << 64) - 1, 64)
    spb = block_size // SECTOR
    s = z3.LShR(g, V(9))
    blk = z3.UDiv(s, V(spb))
    e = W32(zx(f["table_offset"]) + V(4) * blk)
    data = B((zx(e) + V(bitmap_sectors(block_size)) + z3.URem(s, V(spb))) * V(SECTOR) + z3.URem(g, V(SECTOR)))
    dyn = z3.If(e == z3.BitVecVal(0xFFFFFFFF, 32), z3.BitVecVal(0, 8), data)
    return z3.If(fixed, B(g), dyn)

"""VHD guest-content oracle, from the Microsoft Virtual Hard Disk Image Format Specification 1.0
(footer, dynamic disk header, BAT, sector bitmap padded to a sector boundary). Big-endian."""
from __future__ import annotations

from oracles.mem import ite

SECTOR = 512
U64 = (1 << 64) - 1


def footer_pos(fsize, mem):
    """Address of the footer: the last 512 bytes; pre-2004 images have a 511-byte footer, recognised by the
    reserved feature bit (always 1) not being where a 512-byte footer would have it."""
    feat = mem.word(fsize - 512 + 8, 4, "be")
    return ite((feat & 2) != 0, fsize - 512, fsize - 511)


def bitmap_sectors(block_size):
    spb = block_size // SECTOR
    bitmap_bytes = (spb + 7) // 8
    return (bitmap_bytes + SECTOR - 1) // SECTOR


def guest_byte(g, fsize, block_size, mem, dynamic):
    """dynamic: bool (the harness enumerates fixed/dynamic; the footer's data_offset decides in the file)"""
    if not dynamic:
        return mem.byte(g)
    fp = footer_pos(fsize, mem)
    data_offset = mem.word(fp + 16, 8, "be")
    table_offset = mem.word(data_offset + 16, 8, "be")
    spb = block_size // SECTOR
    s = g // SECTOR
    blk = s // spb
    e = mem.word(table_offset + 4 * blk, 4, "be")
    data = mem.byte((e + bitmap_sectors(block_size) + s % spb) * SECTOR + g % SECTOR)
    return ite(e == 0xFFFFFFFF, 0, data)

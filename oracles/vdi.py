"""VDI guest-content oracle, from VirtualBox VDICore.h (header v1.1, block map markers)."""
from __future__ import annotations

import z3

from symx import files
from symx.core import S, bvval as V

SIGNATURE = 0xBEDA107F
# header v1.1 field offsets (pre-header is 64 bytes of text + signature + version = 72 bytes)
OFF_BLOCKS, OFF_DATA, OFF_DISK_SIZE, OFF_BLOCK_SIZE, OFF_BLOCK_EXTRA, OFF_NBLOCKS = 340, 344, 368, 376, 380, 384


def guest_byte(g, blocks_off, data_off, block_size, has_parent, fname="img", parent="parent"):
    W32 = files.word_uf(fname, 4, "le")[0]
    B = files.byte_uf(fname)[0]
    P = files.opaque_uf(parent)[0]
    blk = z3.UDiv(g, V(block_size))
    e = W32(blocks_off + V(4) * blk)
    es = z3.SignExt(S.W - 32, e)
    zero = z3.BitVecVal(0, 8)
    data = B(data_off + es * V(block_size) + z3.URem(g, V(block_size)))
    return z3.If(e == z3.BitVecVal(0xFFFFFFFF, 32), P(g) if has_parent else zero,
                 z3.If(e == z3.BitVecVal(0xFFFFFFFE, 32), zero, data))

"""VDI guest-content oracle, from VirtualBox VDICore.h (header v1.1, block map markers)."""
from __future__ import annotations

from oracles.mem import ite

SIGNATURE = 0xBEDA107F
# header v1.1 field offsets (pre-header is 64 bytes of text + signature + version = 72 bytes)
OFF_BLOCKS, OFF_DATA, OFF_DISK_SIZE, OFF_BLOCK_SIZE, OFF_BLOCK_EXTRA, OFF_NBLOCKS = 340, 344, 368, 376, 380, 384


def guest_byte(g, blocks_off, data_off, block_size, mem, parent=None):
    blk = g // block_size
    e = mem.word(blocks_off + 4 * blk, 4, "le", signed=True)
    data = mem.byte(data_off + e * block_size + g % block_size)
    from_parent = parent.byte(g) if parent is not None else 0
    return ite(e == -1, from_parent, ite(e == -2, 0, data))

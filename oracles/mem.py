"""Memory interfaces the specification oracles are written against. The same oracle function runs on
symbolic integers over the file UFs (obligations, both encodings at once) and on plain integers over a
concrete image (witness/replay expectations, fixture validation)."""
from __future__ import annotations

from symx import core, files


def ite(c, a, b):
    return core.ite(c, a, b)


class SymMem:
    def __init__(self, fname="img"):
        self.fname = fname

    def byte(self, addr):
        return files.byte_at(self.fname, addr)

    def word(self, addr, nbytes, endian="le", signed=False):
        return files.word_at(self.fname, addr, nbytes, endian, signed)

    def inflate(self, off, ln, wbits, maxlen, idx):
        return files.infl_byte((self.fname, off, ln, wbits, maxlen), idx)


class SymOpaque:
    def __init__(self, name):
        self.name = name

    def byte(self, addr):
        return files.opaque_byte(self.name, addr)


class ConcMem:
    def __init__(self, f, inflate=None):
        self.f = f
        self._inflate = inflate

    def byte(self, addr):
        if addr < 0:
            return 0
        self.f.seek(addr)
        b = self.f.read(1)
        return b[0] if b else 0

    def word(self, addr, nbytes, endian="le", signed=False):
        if addr < 0:
            return 0
        self.f.seek(addr)
        b = self.f.read(nbytes).ljust(nbytes, b"\0")
        return int.from_bytes(b, "little" if endian == "le" else "big", signed=signed)

    def inflate(self, off, ln, wbits, maxlen, idx):
        if self._inflate is None:
            return 0  # the oracle evaluates every branch eagerly; this value is only selected for compressed entries
        return self._inflate(off, ln, wbits, maxlen, idx)


class Zero:
    def byte(self, addr):
        return 0


class Shifted:
    """A memory seen through a constant displacement (an extent placed at an offset of a larger disk)."""

    def __init__(self, inner, delta):
        self.inner, self.delta = inner, delta

    def byte(self, addr):
        return self.inner.byte(addr + self.delta)

"""VMDK extent oracles, from VMware 'Virtual Disk Format 1.1' (hosted sparse KDMV incl. stream-optimized, ESX COWD)
and qemu/block/vmdk.c (SE-sparse entry decoding). Little-endian. Sector = 512 bytes."""
from __future__ import annotations

from oracles.mem import ite
from symx import core

SECTOR = 512
GD_AT_END = (1 << 64) - 1
FLAG_COMPRESSED = 0x10000
FLAG_EMBEDDED_LBA = 0x20000
SESPARSE_MAGIC = 0xCAFEBABE


def kdmv_header_addr(fsize, mem):
    """The authoritative header: the one at 0, unless its grain directory offset is all ones; then the footer,
    1024 bytes before the end of the file."""
    gd0 = mem.word(56, 8, "le")
    return ite(gd0 == GD_AT_END, fsize - 1024, 0)


def kdmv_guest_byte(g, fsize, grain_size, ngte, flags, mem, parent=None):
    h = kdmv_header_addr(fsize, mem)
    gd_off = mem.word(h + 56, 8, "le")
    return sparse32_guest_byte(g, gd_off, grain_size, ngte, flags, mem, parent)


def cowd_guest_byte(g, grain_size, mem, parent=None):
    gd_off = mem.word(20, 4, "le")
    return sparse32_guest_byte(g, gd_off, grain_size, 4096, 0, mem, parent)


def sparse32_guest_byte(g, gd_off, grain_size, ngte, flags, mem, parent=None):
    s = g // SECTOR
    grain = s // grain_size
    gt = mem.word(gd_off * SECTOR + 4 * (grain // ngte), 4, "le")
    e = mem.word(gt * SECTOR + 4 * (grain % ngte), 4, "le")
    in_grain = (s % grain_size) * SECTOR + g % SECTOR
    unalloc = parent.byte(g) if parent is not None else 0
    if flags & FLAG_COMPRESSED:
        if flags & FLAG_EMBEDDED_LBA:
            csz = mem.word(e * SECTOR + 8, 4, "le")
            data_at = e * SECTOR + 12
        else:
            csz = mem.word(e * SECTOR, 4, "le")
            data_at = e * SECTOR + 4
        stored = mem.inflate(data_at, csz, 15, grain_size * SECTOR, in_grain)
    else:
        stored = mem.byte(e * SECTOR + in_grain)
    return ite(gt == 0, unalloc, ite(e == 0, unalloc, ite(e == 1, 0, stored)))


def sesparse_guest_byte(g, mem, grain_size, gt_sectors, parent=None):
    """SE-sparse: 64-bit entries. GD entry: 0 = no table; top 32 bits 0x10000000 = table index in the low 32 bits.
    GT entry: top nibble 0/1 = unallocated, 2 = zero, 3 = allocated at grain index (bits 48..59) | (bits 0..47) << 12."""
    gd_off = mem.word(128, 8, "le")
    gts_off = mem.word(144, 8, "le")
    grains_off = mem.word(192, 8, "le")
    per_gt = gt_sectors * SECTOR // 8
    s = g // SECTOR
    grain = s // grain_size
    gde = mem.word(gd_off * SECTOR + 8 * (grain // per_gt), 8, "le")
    has_gt = core.sym_and(gde != 0, (gde >> 32) == 0x10000000)
    gt_index = gde % (1 << 32)
    gte = mem.word((gts_off + gt_index * gt_sectors) * SECTOR + 8 * (grain % per_gt), 8, "le")
    typ = gte >> 60
    idx = ((gte >> 48) & 0xFFF) + ((gte % (1 << 48)) << 12)  # the two fields do not overlap
    stored = mem.byte((grains_off + idx * grain_size) * SECTOR + (s % grain_size) * SECTOR + g % SECTOR)
    unalloc = parent.byte(g) if parent is not None else 0
    return ite(has_gt, ite(typ == 3, stored, ite(typ == 2, 0, unalloc)), unalloc)

"""Parallels HDS guest-content oracle, from QEMU docs/interop/parallels.txt and ploop1_image.h. Little-endian.
Header: magic[16] @0, version @16, heads @20, cylinders @24, tracks (sectors per cluster) @28, bat_entries @32,
nb_sectors @36 (u32 for 'WithoutFreeSpace', u64 for 'WithouFreSpacExt'), in-use @44, data_off @48. BAT from byte 64:
u32 entries; 0 = unallocated; otherwise the cluster's position in sectors (v1) or in clusters (v2)."""
from __future__ import annotations

from oracles.mem import ite

SIG_V1 = b"WithoutFreeSpace"
SIG_V2 = b"WithouFreSpacExt"
BAT_START = 64


def guest_byte(g, version, tracks, mem, parent=None):
    cs = tracks * 512
    cl = g // cs
    e = mem.word(BAT_START + 4 * cl, 4, "le")
    unit = 512 if version == 1 else cs
    data = mem.byte(e * unit + g % cs)
    from_parent = parent.byte(g) if parent is not None else 0
    return ite(e == 0, from_parent, data)

"""Opaque symbolic strings: the result of decoding symbolic bytes. A SymStr is a (codec, bytes, transforms)
triple; the check compares such triples structurally, so "any length / count / character set" holds by
construction and a case-changing transformation shows up as a different term."""
from __future__ import annotations

from symx import core
from symx.core import Unsupported


class SymStr:
    def __init__(self, codec, data, xf=()):
        self.codec = (codec or "utf-8").lower().replace("_", "-")
        self.data = data
        self.xf = tuple(xf)

    def _with(self, t):
        return SymStr(self.codec, self.data, self.xf + (t,))

    def upper(self):
        if self.xf and self.xf[-1] == "upper":
            return self
        return self._with("upper")

    def lower(self):
        if self.xf and self.xf[-1] == "lower":
            return self
        return self._with("lower")

    def strip(self, chars=None):
        return self._with(("strip", chars))

    def replace(self, a, b):
        return self._with(("replace", a, b))

    def encode(self, codec="utf-8"):
        if not self.xf and codec.lower().replace("_", "-") == self.codec:
            return self.data
        raise Unsupported("encode of a transformed symbolic string")

    def __eq__(self, o):
        if isinstance(o, SymStr):
            if o is self:
                return True
            if self.codec == o.codec and self.xf == o.xf and self.data is o.data:
                return True
            from symx.core import eng
            from symx.sbytes import SymBytes

            if eng() is not None and getattr(eng(), "structural_bytes_eq", False):
                if self.codec != o.codec or self.xf != o.xf:
                    return False
                return SymBytes.lift(self.data).structurally_equal(o.data)
            raise Unsupported("equality of two symbolic strings")
        if isinstance(o, str):
            if self.xf:
                raise Unsupported("comparison of a transformed symbolic string")
            return self.data == o.encode(self.codec)
        return False

    def __ne__(self, o):
        return core.sym_not(self.__eq__(o))

    def __hash__(self):
        return 0

    def __len__(self):
        raise Unsupported("len of a symbolic string")

    def __bool__(self):
        return bool(self.data)

    def __format__(self, spec):
        return "<symstr>"

    def __str__(self):
        return "<symstr>"

    __repr__ = __str__

    def key(self):
        """structural identity used by metadata obligations"""
        return (self.codec, self.xf, self.data)

"""Concrete side: evaluate z3 oracle terms against real files, turn solver models into images, and run
the *unpatched* dissect.hypervisor on them in a separate process."""
from __future__ import annotations

import json
import os
import subprocess
import sys
import zlib

import z3

from symx.files import SparseFile

HERE = os.path.dirname(os.path.dirname(os.path.abspath(__file__)))


# ---- concrete evaluation of z3 terms over the file UFs ---------------------------------------------------

class ConcreteEnv:
    """Values for the free constants and concrete files/byte arrays behind the UFs."""

    def __init__(self, consts, files, opaque=None, inflate=None):
        self.consts = consts          # name -> int / bool
        self.files = files            # fname -> SparseFile
        self.opaque = opaque or {}    # name -> SparseFile (byte array)
        self.inflate = inflate or {}  # (fname, wbits) -> callable(off, len, max, idx) -> byte

    def byte(self, f, addr):
        f.seek(addr)
        b = f.read(1)
        return b[0] if b else 0

    def word(self, f, addr, nbytes, endian):
        f.seek(addr)
        b = f.read(nbytes).ljust(nbytes, b"\0")
        return int.from_bytes(b, "little" if endian == "le" else "big")


def ceval(t, env: ConcreteEnv, cache=None):
    """Evaluate a z3 BV/Bool term to a Python int/bool (BV values unsigned)."""
    if cache is None:
        cache = {}
    key = t.get_id()
    if key in cache:
        return cache[key]
    r = _ceval(t, env, cache)
    cache[key] = r
    return r


def _val(x, sort):
    if z3.is_bool(sort) or sort.kind() == z3.Z3_BOOL_SORT:
        return z3.BoolVal(bool(x))
    return z3.BitVecVal(x, sort.size())


def _ceval(t, env, cache):
    if z3.is_bv_value(t):
        return t.as_long()
    if z3.is_true(t):
        return True
    if z3.is_false(t):
        return False
    d = t.decl()
    k = d.kind()
    name = d.name()
    if k == z3.Z3_OP_UNINTERPRETED:
        if t.num_args() == 0:
            if name not in env.consts:
                raise KeyError(f"no concrete value for {name}")
            return env.consts[name]
        args = [ceval(a, env, cache) for a in t.children()]
        if name.startswith("B_"):
            return env.byte(env.files[name[2:]], args[0])
        if name.startswith("W_"):
            fname, kind = name[2:].rsplit("_", 1)
            endian, bits = kind[:2], int(kind[2:])
            return env.word(env.files[fname], args[0], bits // 8, endian)
        if name.startswith("O_"):
            return env.byte(env.opaque[name[2:]], args[0])
        if name.startswith("INF_"):
            fname, w = name[4:].rsplit("_", 1)
            return env.inflate[(fname, w)](*args)
        raise KeyError(f"unknown function {name}")
    if k == z3.Z3_OP_ITE:
        c = ceval(t.arg(0), env, cache)
        return ceval(t.arg(1) if c else t.arg(2), env, cache)
    if k == z3.Z3_OP_AND:
        return all(ceval(a, env, cache) for a in t.children())
    if k == z3.Z3_OP_OR:
        return any(ceval(a, env, cache) for a in t.children())
    if k == z3.Z3_OP_NOT:
        return not ceval(t.arg(0), env, cache)
    ch = t.children()
    vals = [_val(ceval(a, env, cache), a.sort()) for a in ch]
    if ch:
        e = z3.simplify(z3.substitute(t, *zip(ch, vals))) if not _has_dup(ch) else z3.simplify(_rebuild(t, vals))
    else:
        e = z3.simplify(t)
    if z3.is_bv_value(e):
        return e.as_long()
    if z3.is_true(e):
        return True
    if z3.is_false(e):
        return False
    raise ValueError(f"could not evaluate {t.decl()} concretely: {e}")


def _has_dup(ch):
    ids = [c.get_id() for c in ch]
    return len(set(ids)) != len(ids)


def _rebuild(t, vals):
    d = t.decl()
    return d(*vals)


# ---- images from models --------------------------------------------------------------------------------

def model_int(m, term):
    v = m.eval(term, model_completion=True)
    if z3.is_bv_value(v):
        return v.as_long()
    if z3.is_int_value(v):
        return v.as_long()
    if z3.is_true(v):
        return True
    if z3.is_false(v):
        return False
    raise ValueError(f"model value of {term} is not a constant: {v}")


def model_signed(m, term, bits):
    v = model_int(m, term)
    return v - (1 << bits) if v >= (1 << (bits - 1)) else v


def patches_from_apps(m, apps):
    """Evaluate the recorded byte/word applications under model m -> {fname: {addr: bytes}}; raises on conflict."""
    out = {}
    for kind, fname, nbytes, endian, addr_bv, val_bv, *_ in apps:
        a = model_int(m, addr_bv)
        v = model_int(m, val_bv)
        data = v.to_bytes(nbytes, "little" if endian == "le" else "big")
        fp = out.setdefault(fname, {})
        for k, byte in enumerate(data):
            old = fp.get(a + k)
            if old is not None and old != byte:
                raise Unrealisable(f"conflicting content at {fname}+{a + k:#x}")
            fp[a + k] = byte
    merged = {}
    for fname, fp in out.items():
        runs = {}
        for a in sorted(fp):
            if runs and (last := next(reversed(runs))) + len(runs[last]) == a:
                runs[last].append(fp[a])
            else:
                runs[a] = bytearray([fp[a]])
        merged[fname] = {a: bytes(b) for a, b in runs.items()}
    return merged


class Unrealisable(Exception):
    pass


def no_partial_overlap(apps, limit=40):
    """Realisability constraints: any two recorded applications, at least one at a symbolic address, are
    identical in address (and width) or disjoint. Returns (bv_constraint, int_constraint) pairs."""
    cons = []
    allr = [(n, a, ai) for kind, f, n, e, a, v, ai in apps]
    sym = [(n, a, ai) for (n, a, ai) in allr if not z3.is_bv_value(z3.simplify(a))]
    if len(sym) > limit:
        sym = sym[:limit]
    seen = set()
    for n1, a1, i1 in sym:
        for n2, a2, i2 in allr:
            if a1.get_id() == a2.get_id():
                continue
            key = (min(a1.get_id(), a2.get_id()), max(a1.get_id(), a2.get_id()))
            if key in seen:
                continue
            seen.add(key)
            dd = z3.simplify(a1 - a2)
            if z3.is_bv_value(dd):
                # a constant distance apart: disjoint, or linked through the byte view (files._note_symbolic)
                from symx.core import eng as _eng

                d = dd.as_signed_long()
                if not (-n1 < d < n2) or getattr(_eng(), "link_symbolic", False):
                    continue
            w = a1.size()
            same_b = a1 == a2 if n1 == n2 else z3.BoolVal(False)
            same_i = i1 == i2 if n1 == n2 else z3.BoolVal(False)
            cons.append((z3.Or(same_b, z3.UGE(a1, a2 + z3.BitVecVal(n2, w)), z3.UGE(a2, a1 + z3.BitVecVal(n1, w))),
                         z3.Or(same_i, i1 >= i2 + n2, i2 >= i1 + n1)))
    return cons


UNIT5 = bytes.fromhex("000000ffff")        # empty stored block (byte aligned)
UNIT6 = bytes.fromhex("0200000000ffff")[:1] + bytes.fromhex("000000ffff")  # empty fixed-Huffman block + empty stored block


def _plain(tag: int, out_len: int) -> bytes:
    import hashlib

    blk = (hashlib.sha256(b"symx-infl" + tag.to_bytes(16, "little")).digest() * 8)[:251]
    return (blk * (out_len // 251 + 1))[:out_len]


def deflate_core_size(out_len: int) -> int:
    """upper bound of the compressed size of any payload produced by deflate_exact, before padding"""
    co = zlib.compressobj(9, zlib.DEFLATED, -15)
    return len(co.compress(_plain(0, out_len)) + co.flush()) + 64


def deflate_exact(tag: int, out_len: int, in_len: int, wbits: int, plain=None):
    """(plaintext, stream): a deflate (wbits<0) or zlib (wbits>0) stream of exactly in_len bytes that inflates to
    the position-dependent plaintext of out_len bytes. The padding (empty blocks) comes first, so a reader that
    takes fewer than in_len bytes loses real data."""
    if plain is None:
        plain = _plain(tag, out_len)
    co = zlib.compressobj(9, zlib.DEFLATED, -15 if wbits < 0 else -15)
    core_ = co.compress(plain) + co.flush()
    head = b"" if wbits < 0 else bytes([0x78, 0x9C])
    tail = b"" if wbits < 0 else zlib.adler32(plain).to_bytes(4, "big")
    pad = in_len - len(core_) - len(head) - len(tail)
    if pad < 0:
        raise Unrealisable(f"compressed data needs {len(core_) + len(head) + len(tail)} bytes, only {in_len} available")
    for b6 in range(0, 5):
        rest = pad - 6 * b6
        if rest >= 0 and rest % 5 == 0:
            stream = head + UNIT6 * b6 + UNIT5 * (rest // 5) + core_ + tail
            assert len(stream) == in_len
            return plain, stream
    raise Unrealisable(f"cannot pad a deflate stream by {pad} bytes")


# ---- running the real code -----------------------------------------------------------------------------

def run_replay(desc: dict, timeout=600):
    """Run a replay description against the unpatched code in a fresh interpreter.
    Returns (verdict, detail): verdict in {"violation", "ok", "error"}."""
    env = dict(os.environ)
    env.update({k: str(v) for k, v in desc.get("env", {}).items()})
    env["PYTHONPATH"] = HERE + os.pathsep + env.get("PYTHONPATH", "")
    env.pop("SYMX_TRACE", None)
    p = subprocess.run([sys.executable, "-m", "symx.replay_runner"], input=json.dumps(desc), text=True,
                       capture_output=True, env=env, timeout=timeout)
    out = p.stdout.strip().splitlines()
    last = out[-1] if out else ""
    if p.returncode == 1:
        return "violation", last
    if p.returncode == 0:
        return "ok", last
    return "error", (last + " " + p.stderr.strip()[-2000:]).strip()

"""Symbolic byte strings as lists of segments; no per-byte term is ever built for bulk data.

A segment (kind, src, start, length) denotes `length` consecutive bytes:
  zero   : all 0
  const  : bytes object src, from index start
  file   : bytes of file `src` (a SymFile name) from address start
  infl   : output bytes of inflating a file range; src = (fname, off, len, wbits, maxlen); from index start
  opaque : bytes start.. of an uninterpreted byte array named src ("parent", "guest", "extent0", ...)
start/length are int or SymInt.
"""
from __future__ import annotations

import z3

from symx import core
from symx.core import SymBool, SymInt, Unsupported, bvval, eng, mkb, parts, sym_max, sym_min


class Seg:
    __slots__ = ("kind", "src", "start", "length")

    def __init__(self, kind, src, start, length):
        self.kind, self.src, self.start, self.length = kind, src, start, length

    def __repr__(self):
        return f"Seg({self.kind},{self.src if self.kind != 'const' else len(self.src)},{self.start},{self.length})"


def _is_zero_len(n):
    return isinstance(n, int) and n <= 0


class SymBytes:
    __slots__ = ("segs",)

    def __init__(self, segs=()):
        self.segs = [s for s in segs if not _is_zero_len(s.length)]

    # -- constructors
    @staticmethod
    def from_bytes(b: bytes):
        if not b:
            return SymBytes([])
        if b.count(0) == len(b):
            return SymBytes([Seg("zero", None, 0, len(b))])
        return SymBytes([Seg("const", bytes(b), 0, len(b))])

    @staticmethod
    def lift(x):
        if isinstance(x, SymBytes):
            return x
        if isinstance(x, (bytes, bytearray)):
            return SymBytes.from_bytes(bytes(x))
        if isinstance(x, memoryview):
            return SymBytes.from_bytes(x.tobytes())
        if hasattr(x, "__symx_bytes__"):
            return x.__symx_bytes__()
        raise Unsupported(f"cannot treat {type(x).__name__} as bytes")

    # -- length
    def length(self):
        n = 0
        for s in self.segs:
            n = n + s.length
        return n

    def __len__(self):
        n = self.length()
        return n.__index__() if isinstance(n, SymInt) else n

    def __bool__(self):
        n = self.length()
        return bool(n > 0)

    # -- concatenation / repetition
    def __add__(self, o):
        try:
            o = SymBytes.lift(o)
        except Unsupported:
            return NotImplemented
        return SymBytes(self.segs + o.segs)

    def __radd__(self, o):
        try:
            o = SymBytes.lift(o)
        except Unsupported:
            return NotImplemented
        return SymBytes(o.segs + self.segs)

    def __symx_repeat__(self, n):
        if not self.segs:
            return self
        if isinstance(n, int):
            if n <= 0:
                return SymBytes([])
            if all(s.kind == "zero" for s in self.segs):
                return SymBytes([Seg("zero", None, 0, self.length() * n)])
            if n > 64:
                raise Unsupported("large repetition of non-zero bytes")
            return SymBytes(self.segs * n)
        if all(s.kind == "zero" for s in self.segs):
            ln = self.length()
            if isinstance(ln, SymInt):
                raise Unsupported("symbolic * symbolic length")
            # bytes * negative == b""
            return SymBytes([Seg("zero", None, 0, sym_max(n * ln, 0))])
        raise Unsupported("symbolic repetition of non-zero bytes")

    __mul__ = __symx_repeat__
    __rmul__ = __symx_repeat__

    # -- byte access
    def _seg_byte(self, s, d):
        """value (SymInt/int) of byte d of segment s"""
        from symx import files

        if s.kind == "zero":
            return 0
        if s.kind == "const":
            idx = s.start + d
            if isinstance(idx, int):
                return s.src[idx]
            if len(s.src) > 64:
                raise Unsupported("symbolic index into a long constant")
            r = s.src[-1]
            for k in range(len(s.src) - 2, -1, -1):
                r = core.ite(idx == k, s.src[k], r)
            return r
        if s.kind == "file":
            return files.byte_at(s.src, s.start + d)
        if s.kind == "opaque":
            return files.opaque_byte(s.src, s.start + d)
        if s.kind == "infl":
            return files.infl_byte(s.src, s.start + d)
        if s.kind == "fill":
            return s.src  # every byte of the segment has this (possibly symbolic) value
        raise Unsupported(f"byte of segment kind {s.kind}")

    def byte(self, i):
        """byte at index i (int or SymInt); IndexError when out of range"""
        n = self.length()
        if i < 0:
            i = i + n
        if i < 0 or i >= n:
            raise IndexError("index out of range")
        p = 0
        live = []
        for s in self.segs:
            live.append((p, s))
            p = p + s.length
        # find the segment: concrete fast path
        if isinstance(i, int) and all(isinstance(pp, int) and isinstance(s.length, int) for pp, s in live):
            for pp, s in live:
                if pp <= i < pp + s.length:
                    return self._seg_byte(s, i - pp)
        r = None
        for pp, s in reversed(live):
            v = self._seg_byte(s, i - pp)
            r = v if r is None else core.ite(core.sym_and(i >= pp, i < pp + s.length), v, r)
        return r

    def __iter__(self):
        i = 0
        n = self.length()
        while i < n:
            yield self.byte(i)
            i += 1

    def __getitem__(self, i):
        if isinstance(i, slice):
            if i.step not in (None, 1):
                raise Unsupported("slice step")
            return self._slice(i.start, i.stop)
        return self.byte(i)

    def _slice(self, lo, hi):
        n = self.length()
        if lo is None:
            lo = 0
        elif lo < 0:
            lo = sym_max(lo + n, 0)
        if hi is None:
            hi = n
        elif hi < 0:
            hi = sym_max(hi + n, 0)
        lo = sym_min(lo, n)
        hi = sym_min(hi, n)
        out = []
        p = 0
        for s in self.segs:
            a = sym_max(lo, p)
            b = sym_min(hi, p + s.length)
            ln = sym_max(b - a, 0)
            if not _is_zero_len(ln):
                skip = sym_min(sym_max(lo - p, 0), s.length)
                out.append(Seg(s.kind, s.src, s.start + skip if s.kind != "zero" else 0, ln))
            p = p + s.length
        return SymBytes(out)

    def coalesced(self, fork=False):
        """Merge neighbouring file segments that are provably adjacent in the file (decided exactly).
        fork=True: decide (branch on) whether each symbolic-length segment is empty, so the structure is definite."""
        out = []
        for s in self.segs:
            if isinstance(s.length, SymInt):
                if fork:
                    if not (s.length > 0):
                        continue
                elif eng().decide_case(s.length > 0) is None:
                    continue  # provably empty
            if out and out[-1].kind == s.kind and s.kind in ("file", "opaque") and out[-1].src is not None \
                    and (out[-1].src is s.src or (isinstance(s.src, str) and out[-1].src == s.src)):
                p = out[-1]
                gap = (p.start + p.length) != s.start
                if gap is False or (gap is not True and eng().decide_case(gap) is None):
                    out[-1] = Seg(s.kind, p.src, p.start, p.length + s.length)
                    continue
            out.append(s)
        return SymBytes(out)

    def structurally_equal(self, o):
        """Equality of two symbolic byte strings under the idealisation that bytes from different sources are
        independent: same segment structure, sources, starts and lengths. Returns SymBool/bool."""
        a, b = self.coalesced(fork=True), SymBytes.lift(o).coalesced(fork=True)
        if len(a.segs) != len(b.segs):
            return False
        conds = []
        for x, y in zip(a.segs, b.segs):
            if x.kind != y.kind:
                return False
            if x.kind == "const":
                if x.src[x.start: x.start + x.length] != y.src[y.start: y.start + y.length]:
                    return False
                continue
            same = x.src == y.src
            if same is False:
                return False
            if same is not True:
                conds.append(same)
            conds.append(x.length == y.length)
            if x.kind not in ("zero", "fill"):
                conds.append(x.start == y.start)
        return core.sym_and(*conds) if conds else True

    # -- comparisons with constants
    def __eq__(self, o):
        if isinstance(o, (bytes, bytearray)):
            n = self.length()
            if isinstance(n, int):
                if n != len(o):
                    return False
            elif not (n == len(o)):
                return False
            conds = []
            for k, c in enumerate(o):
                b = self.byte(k)
                e = b == c
                if e is False:
                    return False
                if e is not True:
                    conds.append(e)
            return core.sym_and(*conds) if conds else True
        if isinstance(o, SymBytes):
            if o is self:
                return True
            if eng() is not None and getattr(eng(), "structural_bytes_eq", False):
                return self.structurally_equal(o)
            raise Unsupported("equality of two symbolic byte strings")
        return False

    def __ne__(self, o):
        r = self.__eq__(o)
        return core.sym_not(r)

    def __hash__(self):
        if eng() is not None and getattr(eng(), "structural_bytes_eq", False):
            return 0  # all symbolic byte strings collide; equality (structural) decides
        raise TypeError("unhashable type: 'SymBytes'")

    def startswith(self, prefix):
        if isinstance(prefix, tuple):
            return core.sym_or(*[self.startswith(p) for p in prefix])
        n = self.length()
        if not (n >= len(prefix)):
            return False
        return self._slice(0, len(prefix)) == prefix

    # -- bytes API used by the code under test
    def ljust(self, width, fill=b" "):
        n = self.length()
        pad = sym_max(width - n, 0)
        if _is_zero_len(pad):
            return self
        if fill != b"\x00":
            raise Unsupported("ljust with a non-zero fill")
        return SymBytes(self.segs + [Seg("zero", None, 0, pad)])

    def tobytes(self):
        return self

    def __bytes__(self):
        raise Unsupported("concretising symbolic bytes")

    def decode(self, encoding="utf-8", errors="strict"):
        from symx.sstr import SymStr

        return SymStr(encoding, self)

    def split(self, sep=None, maxsplit=-1):
        raise Unsupported("split on symbolic bytes")

    def __repr__(self):
        return f"SymBytes({self.segs})"

    # -- obligations: value of byte j as an exact BV8 term -------------------------------------------------
    def byte_term(self, j_bv):
        """(value_bv8, total_length_bv): value of byte j (a W-bit BV term) as an If-chain over segments."""
        from symx import files

        pos = bvval(0)
        val = z3.BitVecVal(0, 8)
        chain = []
        for s in self.segs:
            lb = parts(s.length)[0]
            d = j_bv - pos
            if s.kind == "zero":
                v = z3.BitVecVal(0, 8)
            elif s.kind == "const":
                if len(s.src) > 4096:
                    raise Unsupported("long constant in a result")
                v = z3.BitVecVal(s.src[-1], 8)
                idx = parts(s.start)[0] + d
                for k in range(len(s.src) - 2, -1, -1):
                    v = z3.If(idx == bvval(k), z3.BitVecVal(s.src[k], 8), v)
            elif s.kind == "file":
                v = files.byte_uf(s.src)[0](parts(s.start)[0] + d)
            elif s.kind == "opaque":
                v = files.opaque_uf(s.src)[0](parts(s.start)[0] + d)
            elif s.kind == "infl":
                v = files.infl_term(s.src, parts(s.start)[0] + d)
            else:
                raise Unsupported(s.kind)
            chain.append((z3.And(j_bv >= pos, j_bv < pos + lb), v))
            pos = pos + lb
        for c, v in reversed(chain):
            val = z3.If(c, v, val)
        return val, pos


def sym_join(sep, items):
    """bytes.join that accepts SymBytes items (AST rewrite target for X.join(Y))."""
    if isinstance(sep, str):
        return sep.join(items)
    if not isinstance(sep, (bytes, bytearray)):
        return sep.join(items)
    items = list(items)
    if all(isinstance(i, (bytes, bytearray, memoryview)) for i in items):
        return sep.join(items)
    segs = []
    first = True
    for it in items:
        if not first and sep:
            segs.extend(SymBytes.from_bytes(bytes(sep)).segs)
        first = False
        segs.extend(SymBytes.lift(it).segs)
    return SymBytes(segs)

"""Stand-ins for dissect.cstruct types whose layouts are *learned from the real parser* on every run.

For each structure type the real class parses the all-zero buffer and every single-bit buffer; each integer
attribute becomes a bit slice of a little/big-endian word at a byte offset, each char[n] a byte range.
The learned model is validated against the real parser on random buffers before use. A layout change in a
c_*.py file therefore changes the encoding, and the oracle (written from the specification) disagrees.
"""
from __future__ import annotations

import random

from symx import core, files
from symx.core import SymInt, Unsupported, eng
from symx.files import SymFile
from symx.sbytes import SymBytes

_layouts = {}


def _leaf(v):
    if isinstance(v, (bytes, bytearray)):
        return ("bytes", bytes(v))
    if isinstance(v, bool):
        return ("int", int(v))
    if isinstance(v, int):
        return ("int", int(v))
    return ("other", None)


def _leafs(obj, names):
    return {n: _leaf(getattr(obj, n)) for n in names}


def learn(T):
    """-> (size, {field: descriptor}); descriptor:
       ("int", byte_off, nbytes, endian, shift, nbits, signed, base) or ("bytes", off, n) or ("other",)"""
    if T in _layouts:
        return _layouts[T]
    n = len(T)
    names = list(T.fields.keys())
    base = _leafs(T(bytes(n)), names)
    weights = {k: {} for k, (kind, _) in base.items() if kind == "int"}
    brange = {k: set() for k, (kind, _) in base.items() if kind == "bytes"}
    for bit in range(8 * n):
        buf = bytearray(n)
        buf[bit // 8] = 1 << (bit % 8)
        cur = _leafs(T(bytes(buf)), names)
        for k, (kind, v) in cur.items():
            if kind == "int" and v != base[k][1]:
                weights[k][bit] = v - base[k][1]
            elif kind == "bytes" and v != base[k][1]:
                brange[k].add(bit // 8)
    rnd = random.Random(1234)
    for _ in range(16):
        buf = rnd.randbytes(n)
        obj = _leafs(T(buf), names)
        for k, w in weights.items():
            pred = base[k][1] + sum(wt for b, wt in w.items() if buf[b // 8] >> (b % 8) & 1)
            if pred != obj[k][1]:
                raise Unsupported(f"field {T.__name__}.{k} is not a linear function of the buffer")
    # bit fields share the storage unit of their declared type: use that whole word as the container so that
    # all fields of one unit are slices of the same word UF
    containers = {}
    group = []

    def flush():
        if not group:
            return
        size = T.fields[group[0]].type.size
        bytes_ = [b // 8 for g in group for b in weights.get(g, {})]
        if bytes_:
            gmin, gmax = min(bytes_), max(bytes_)
            if gmax - gmin + 1 <= size:
                le = T.cs.endian != ">"
                cstart = gmin if le else gmax - size + 1
                if cstart >= 0 and cstart + size <= n:
                    for g in group:
                        containers[g] = (cstart, size)
        group.clear()

    for k in names:
        f = T.fields[k]
        if getattr(f, "bits", None) and k in weights:
            used = sum(T.fields[g].bits for g in group)
            if group and (T.fields[group[0]].type is not f.type or used + f.bits > 8 * f.type.size):
                flush()
            group.append(k)
        else:
            flush()
    flush()

    fields = {}
    for k, (kind, v) in base.items():
        if kind == "int":
            fields[k] = _int_descriptor(T, k, weights[k], v, containers.get(k))
        elif kind == "bytes":
            bl = brange[k]
            # a char[n] field: contiguous; its length is the length of the parsed value
            if bl:
                off = min(bl)
                fields[k] = ("bytes", off, len(v))
            else:
                fields[k] = ("bytes", 0, 0)
        else:
            fields[k] = ("other",)
    _layouts[T] = (n, fields)
    return _layouts[T]


def _int_descriptor(T, k, w, base, container=None):
    if not w:
        return ("const", base)
    bits = sorted(w, key=lambda b: abs(w[b]))
    signed = any(v < 0 for v in w.values())
    nbits = len(bits)
    for i, b in enumerate(bits):
        want = 1 << i
        if abs(w[b]) != want or ((w[b] < 0) != (signed and i == nbits - 1)):
            raise Unsupported(f"field {T.__name__}.{k}: weights are not a plain binary number")
    bmin, bmax = min(b // 8 for b in bits), max(b // 8 for b in bits)
    if container and container[0] <= bmin and bmax < container[0] + container[1]:
        bmin, bmax = container[0], container[0] + container[1] - 1
    nbytes = bmax - bmin + 1
    if base != 0:
        raise Unsupported(f"field {T.__name__}.{k}: non-zero base")
    for endian in ("le", "be"):
        def g(bit):
            byte, t = bit // 8, bit % 8
            return 8 * ((byte - bmin) if endian == "le" else (bmax - byte)) + t
        gs = [g(b) for b in bits]
        if all(gs[i] == gs[0] + i for i in range(nbits)):
            return ("int", bmin, nbytes, endian, gs[0], nbits, signed, base)
    raise Unsupported(f"field {T.__name__}.{k}: not a contiguous slice of a word")


class StructObj:
    """A parsed structure; fields are computed lazily over the file/byte UFs."""

    def __init__(self, stype, buf):
        object.__setattr__(self, "_stype", stype)
        object.__setattr__(self, "_buf", buf)
        object.__setattr__(self, "_cache", {})

    def __getattr__(self, k):
        st = object.__getattribute__(self, "_stype")
        cache = object.__getattribute__(self, "_cache")
        if k in cache:
            return cache[k]
        if k not in st.fields:
            raise AttributeError(k)
        v = st.field_value(object.__getattribute__(self, "_buf"), k)
        cache[k] = v
        return v

    def __setattr__(self, k, v):
        object.__getattribute__(self, "_cache")[k] = v

    def __repr__(self):
        return f"<{object.__getattribute__(self, '_stype').name} (symbolic)>"


class StructType:
    def __init__(self, T, proxy):
        self.T = T
        self.name = T.__name__
        self.size, self.fields = learn(T)
        self.proxy = proxy

    def __len__(self):
        return self.size

    def __repr__(self):
        return f"<symx struct {self.name}>"

    def _buffer(self, src):
        if isinstance(src, SymFile) or (hasattr(src, "read") and not isinstance(src, (bytes, SymBytes))):
            buf = src.read(self.size)
        else:
            buf = src
        if isinstance(buf, (bytes, bytearray, memoryview)):
            return bytes(buf), True
        buf = SymBytes.lift(buf)
        n = buf.length()
        if not (n >= self.size):
            raise EOFError(f"Read {n} bytes, but expected {self.size}")
        return buf, False

    def __call__(self, *args, **kw):
        if kw or len(args) != 1:
            return self.T(*args, **kw)
        buf, concrete = self._buffer(args[0])
        if concrete:
            return self.T(buf)
        return StructObj(self, buf)

    def field_value(self, buf, k):
        d = self.fields[k]
        if d[0] == "const":
            return d[1]
        if d[0] == "bytes":
            return buf[d[1]: d[1] + d[2]]
        if d[0] == "int":
            _, off, nbytes, endian, shift, nbits, signed, base = d
            pins = getattr(eng(), "pins", {})
            pin = pins.get((self.name, k), pins.get(k))
            if nbytes in (1, 2, 4, 8):
                whole = shift == 0 and nbits == 8 * nbytes
                w = files.bytes_word(buf, off, nbytes, endian, signed and whole)
                if not whole:
                    w = (w >> shift) & ((1 << nbits) - 1)
                    if signed:
                        w = core.ite(w >= (1 << (nbits - 1)), w - (1 << nbits), w)
            else:
                w = 0
                order = range(nbytes) if endian == "le" else range(nbytes - 1, -1, -1)
                for j, idx in enumerate(order):
                    w = w + buf.byte(off + idx) * (256 ** j)
                w = (w >> shift) & ((1 << nbits) - 1)
                if signed:
                    w = core.ite(w >= (1 << (nbits - 1)), w - (1 << nbits), w)
            if pin is not None and isinstance(w, SymInt):
                if callable(pin):
                    return pin(w)
                c = w == pin
                if c is False:
                    raise core.PathAbort(f"pin {self.name}.{k}={pin} contradicts the value range {w!r}")
                eng().assume(c)
                return pin
            return w
        raise Unsupported(f"field {self.name}.{k} has an unsupported type")

    def __getitem__(self, n):
        return StructArrayType(self, n)


class StructArrayType:
    def __init__(self, st, n):
        self.st, self.n = st, n

    def __call__(self, src):
        n = self.n
        if isinstance(n, SymInt):
            n = n.__index__()
        return [self.st(src) for _ in range(n)]


class IntType:
    def __init__(self, real, endian):
        self.real = real
        self.size = real.size
        self.endian = endian
        self.signed = real.packchar.islower()

    def __len__(self):
        return self.size

    def __getitem__(self, n):
        return IntArrayType(self, n)

    def __call__(self, src):
        if isinstance(src, (bytes, bytearray, int)):
            return self.real(src)
        if isinstance(src, SymInt):
            return src
        if isinstance(src, SymFile) or (hasattr(src, "read") and not isinstance(src, SymBytes)):
            src = src.read(self.size)
            if isinstance(src, (bytes, bytearray)):
                return self.real(bytes(src))
        return files.bytes_word(SymBytes.lift(src), 0, self.size, self.endian, self.signed)

    def __getattr__(self, k):
        return getattr(self.real, k)


class IntArrayType:
    def __init__(self, it, n):
        self.it, self.n = it, n

    def __call__(self, src):
        if isinstance(src, (bytes, bytearray)):
            return self.it.real[self.n](src)
        return files.read_table(src, self.n, self.it.size, self.it.endian, self.it.signed)


class CStructProxy:
    """Wraps a real cstruct instance: constants pass through, types become stand-ins."""

    def __init__(self, real):
        object.__setattr__(self, "_real", real)
        object.__setattr__(self, "_e", "be" if real.endian == ">" else "le")
        object.__setattr__(self, "_cache", {})

    def __getattr__(self, k):
        cache = object.__getattribute__(self, "_cache")
        if k in cache:
            return cache[k]
        real = object.__getattribute__(self, "_real")
        v = getattr(real, k)
        r = self.wrap(v)
        cache[k] = r
        return r

    def wrap(self, v):
        if isinstance(v, (int, bytes, str)) and not isinstance(v, type):
            return v
        tn = type(v).__name__
        if tn == "StructureMetaType":
            return StructType(v, self)
        if isinstance(v, type) and hasattr(v, "packchar") and issubclass(v, int):
            return IntType(v, object.__getattribute__(self, "_e"))
        return v


def swap_types(obj, proxy, seen=None):
    """Replace real cstruct types captured in class-level containers (e.g. MetadataTable.METADATA_MAP)."""
    if isinstance(obj, dict):
        for k, v in list(obj.items()):
            w = proxy.wrap(v) if isinstance(v, type) or type(v).__name__ == "StructureMetaType" else v
            if w is not v:
                obj[k] = w

"""Runs one replay description against the real, unpatched dissect.hypervisor (no stubs, no rewrites).

stdin (or argv[1]): JSON description. Exit 0: behaviour matches the expectation; exit 1: it does not
(the violation reproduces); exit 2: the replay itself could not be run.
"""
from __future__ import annotations

import json
import sys
import traceback

from symx.files import SparseFile


from symx.replay_entries import OPENERS, RawStream, mkfile, register  # noqa: E402,F401


def do_call(obj, call):
    op = call[0]
    if op == "read_sectors":
        return obj.read_sectors(call[1], call[2])
    if op == "_read":
        return obj._read(call[1], call[2])
    if op == "read":
        obj.seek(call[1])
        return obj.read(call[2])
    if op == "ops":
        # a history: list of [op, args...]; returns the result of the last one
        r = None
        for o in call[1]:
            if o[0] == "seek":
                r = obj.seek(*o[1:])
            elif o[0] == "read":
                r = obj.read(*o[1:])
            elif o[0] == "peek":
                r = obj.peek(*o[1:])
            elif o[0] == "read_sectors":
                r = obj.read_sectors(*o[1:])
            elif o[0] == "_read":
                r = obj._read(*o[1:])
            elif o[0] == "tell":
                r = obj.tell()
        return r
    if op == "tree":
        return obj.tree()
    if op == "meta":
        return obj.meta()
    if op == "snapshots":
        return obj.snapshots()
    if op == "unlock":
        return obj.unlock()
    if op in ("chain", "walk") or (op == "open" and hasattr(obj, "kind")):
        return obj.run()
    if op == "paths":
        return obj.paths()
    if op == "members":
        return obj.members()
    if op == "parse_line":
        return obj.parse_line(call[1])
    if op == "stream_step":
        return obj.stream_step()
    if op == "partial_runs":
        return obj.partial_runs(call[1], call[2], call[3])
    if op == "range":
        return obj.range(call[1], call[2], call[3])
    if op == "open":
        return b""
    if op == "attr":
        return getattr(obj, call[1])
    raise ValueError(f"unknown call {op}")


def main():
    try:
        raw = open(sys.argv[1]).read() if len(sys.argv) > 1 else sys.stdin.read()
        desc = json.loads(raw)
        files = {k: mkfile(v, name=v.get("name")) for k, v in desc.get("files", {}).items()}
        opaque = {k: mkfile(v) for k, v in desc.get("opaque", {}).items()}
        opener = OPENERS[desc["entry"]]
        if desc["entry"] == "paths":
            desc.setdefault("params", {})["exists"] = desc.get("fs_exists", [])
            desc.setdefault("expect", dict(paths=True))
    except Exception:  # noqa: BLE001
        traceback.print_exc()
        print("REPLAY-ERROR could not set up")
        return 2
    exp = desc.get("expect", {})
    inflated = [0]
    if "max_inflate" in exp:
        # environment instrumentation (not the code under test): record how much any zlib call produces
        import zlib

        real_d, real_o = zlib.decompress, zlib.decompressobj

        def dec(data, *a, **kw):
            out = real_d(data, *a, **kw)
            inflated[0] = max(inflated[0], len(out))
            return out

        class Obj:
            def __init__(self, *a, **kw):
                self._o = real_o(*a, **kw)

            def decompress(self, data, max_length=0):
                out = self._o.decompress(data, max_length)
                inflated[0] = max(inflated[0], len(out))
                return out

            def __getattr__(self, k):
                return getattr(self._o, k)

        zlib.decompress, zlib.decompressobj = dec, Obj
    try:
        obj = opener(files, opaque, desc.get("params", {}))
        res = do_call(obj, desc["call"])
    except MemoryError as ex:
        print(f"REPLAY-ERROR replay too large: {ex}")
        return 2
    except Exception as ex:  # noqa: BLE001 - the real code may raise anything
        got = type(ex).__name__
        if "max_inflate" in exp:
            ok = inflated[0] <= exp["max_inflate"]
            print(f"{'MATCH' if ok else 'MISMATCH'} largest inflate output {inflated[0]} (bound {exp['max_inflate']}); raised {got}")
            return 0 if ok else 1
        if exp.get("terminates"):
            ok = not isinstance(ex, (TimeoutError, RecursionError, MemoryError))
            print(f"{'MATCH' if ok else 'MISMATCH'} raised {got}: {str(ex)[:200]}")
            return 0 if ok else 1
        if "raises" in exp:
            ok = exp["raises"] in ("*", got) or got in exp["raises"].split("|")
            print(f"{'MATCH' if ok else 'MISMATCH'} raised {got}: {ex}")
            return 0 if ok else 1
        print(f"MISMATCH raised {got}: {str(ex)[:300]} (expected a result)")
        return 1
    if "raises" in exp:
        print(f"MISMATCH returned normally (expected {exp['raises']})")
        return 1
    if "max_inflate" in exp:
        ok = inflated[0] <= exp["max_inflate"]
        print(f"{'MATCH' if ok else 'MISMATCH'} largest inflate output {inflated[0]} (bound {exp['max_inflate']})")
        return 0 if ok else 1
    if "attrs" in exp:
        # exposed attributes of the opened object against the stored values (computed by the harness from the model)
        bad = {}
        for k, v in exp["attrs"].items():
            if k == "active_header":
                got = next((i for i, h in enumerate(obj.headers) if h is obj.header), None)
            else:
                got = getattr(obj, k)
                got = int(got) if isinstance(got, (int, bool)) else got
            if got != v:
                bad[k] = (got, v)
        print(f"{'MATCH' if not bad else 'MISMATCH'} exposed attributes (got, stored): {bad if bad else exp['attrs']}"[:900])
        return 0 if not bad else 1
    if "hyperv_tree" in exp:
        ok = res == exp["hyperv_tree"]
        print(f"{'MATCH' if ok else 'MISMATCH'} decoded {res} stored {exp['hyperv_tree']}"[:900])
        return 0 if ok else 1
    if "qcow2_meta" in exp:
        w = exp["qcow2_meta"]
        g = dict(res)
        bf = g.get("backing_format")
        ok = (g["feature_table"] == w["feature_table"] and g["image_data_file"] == w["image_data_file"]
              and g["unknown"] == w["unknown"] and g["auto_backing_file"] == w["auto_backing_file"]
              and ((bf is None) == (w["backing_format"] is None))
              and (bf is None or bf == bytes.fromhex(w["backing_format"]).decode(errors="replace").upper()))
        print(f"{'MATCH' if ok else 'MISMATCH'} exposed {g} stored {w}"[:900])
        return 0 if ok else 1
    if "snapshots" in exp:
        ok = [list(x) for x in res] == exp["snapshots"]
        print(f"{'MATCH' if ok else 'MISMATCH'} snapshots {res} stored {exp['snapshots']}"[:900])
        return 0 if ok else 1
    if "unlock" in exp:
        outcome, state_ok, exc = res
        ok = outcome == exp["unlock"] and state_ok
        print(f"{'MATCH' if ok else 'MISMATCH'} unlock outcome {outcome} {exc} (expected {exp['unlock']}), configuration state as required: {state_ok}")
        return 0 if ok else 1
    if exp.get("terminates"):
        ok = res is True
        print(f"{'MATCH' if ok else 'MISMATCH'} terminated within bounds: {res}")
        return 0 if ok else 1
    if exp.get("paths"):
        ok = not res["bad_modes"] and not res["changed"]
        print(f"{'MATCH' if ok else 'MISMATCH'} open modes {res['bad_modes']} changed files {res['changed']}")
        return 0 if ok else 1
    if "members" in exp:
        ok = [list(x) for x in res] == exp["members"]
        print(f"{'MATCH' if ok else 'MISMATCH'} members {res} expected {exp['members']}")
        return 0 if ok else 1
    if exp.get("assembly"):
        got, want, size_ok = res
        ok = size_ok and got[: len(want)] == want and len(got) >= len(want)
        print(f"{'MATCH' if ok else 'MISMATCH'} assembled read: {len(got)} bytes, expected {len(want)}, size ok {size_ok}")
        return 0 if ok else 1
    if "bits" in exp:
        flat = []
        for t, c in res:
            flat.extend([t] * max(c, 0))
        ok = flat == exp["bits"] and all(c >= 1 for _, c in res)
        print(f"{'MATCH' if ok else 'MISMATCH'} runs {res} expected bits {exp['bits']}")
        return 0 if ok else 1
    if "spec_classes" in exp:
        # result: (sub-cluster type, count) of a range starting at sc_from
        t, c = res
        name = getattr(t, "name", str(t))
        cls = 3 if "COMPRESSED" in name else 1 if "ZERO" in name else 2 if "NORMAL" in name else 0
        lo = exp["sc_from"]
        ok = c >= 1 and lo + c <= 32 and all(exp["spec_classes"][k] == cls for k in range(lo, min(lo + max(c, 0), 32)))
        print(f"{'MATCH' if ok else 'MISMATCH'} range type={name} count={c} from={lo} spec={exp['spec_classes']}")
        return 0 if ok else 1
    if "value" in exp:
        ok = res == exp["value"] or (isinstance(res, (bytes, bytearray)) and res.hex() == exp["value"])
        print(f"{'MATCH' if ok else 'MISMATCH'} value {res!r} expected {exp['value']!r}")
        return 0 if ok else 1
    if "len" in exp and len(res) != exp["len"]:
        print(f"MISMATCH length {len(res)} expected {exp['len']}")
        return 1
    if "min_len" in exp and not (exp["min_len"] <= len(res) <= exp["max_len"]):
        print(f"MISMATCH length {len(res)} outside [{exp['min_len']}, {exp['max_len']}]")
        return 1
    for j, v in exp.get("bytes", []):
        if j >= len(res) or res[j] != v:
            got = res[j] if j < len(res) else None
            print(f"MISMATCH byte {j}: got {got} expected {v}")
            return 1
    if "max_bytes_read" in exp:
        total = sum(f.bytes_read for f in files.values())
        if total > exp["max_bytes_read"]:
            print(f"MISMATCH bytes read {total} > bound {exp['max_bytes_read']}")
            return 1
    print("MATCH")
    return 0


if __name__ == "__main__":
    sys.exit(main())

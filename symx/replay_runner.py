"""Runs one replay description against the real, unpatched dissect.hypervisor (no stubs, no rewrites).

stdin (or argv[1]): JSON description. Exit 0: behaviour matches the expectation; exit 1: it does not
(the violation reproduces); exit 2: the replay itself could not be run.
"""
from __future__ import annotations

import json
import sys
import traceback

from symx.files import SparseFile


def mkfile(d, name=None):
    patches = {int(a): bytes.fromhex(h) for a, h in d.get("patches", [])}
    return SparseFile(int(d["size"]), patches, seed=int(d.get("seed", 0)), name=name)


class RawStream:
    """A parent/extent presenting an opaque byte array."""

    def __init__(self, f, sector_size=512):
        self.f = f
        self.sector_size = sector_size
        self.size = f._size

    def read_sectors(self, sector, count):
        self.f.seek(sector * self.sector_size)
        return self.f.read(count * self.sector_size)

    def _read(self, offset, length):
        self.f.seek(offset)
        return self.f.read(length)

    def seek(self, off, whence=0):
        return self.f.seek(off, whence)

    def read(self, n=-1):
        return self.f.read(n)

    def tell(self):
        return self.f.tell()


# ---- openers: build the real object for an entry -----------------------------------------------------------

def open_vhdx_new(files, opaque, p):
    from dissect.hypervisor.disk import vhdx
    from dissect.util.stream import AlignedStream

    obj = vhdx.VHDX.__new__(vhdx.VHDX)
    obj.fh = files["img"]
    obj.size = p["size"]
    obj.block_size, obj.sector_size = p["block_size"], p["sector_size"]
    obj._sectors_per_block = obj.block_size // obj.sector_size
    obj._chunk_ratio = ((2 ** 23) * obj.sector_size) // obj.block_size
    obj.has_parent = bool(p.get("has_parent"))
    obj.parent = RawStream(opaque["parent"], obj.sector_size) if obj.has_parent else None
    obj.bat = vhdx.BlockAllocationTable(obj, p["bat_offset"])
    AlignedStream.__init__(obj, obj.size)
    return obj


OPENERS = {
    "vhdx_new": open_vhdx_new,
}


def register(name):
    def deco(f):
        OPENERS[name] = f
        return f
    return deco


def do_call(obj, call):
    op = call[0]
    if op == "read_sectors":
        return obj.read_sectors(call[1], call[2])
    if op == "_read":
        return obj._read(call[1], call[2])
    if op == "read":
        obj.seek(call[1])
        return obj.read(call[2])
    if op == "ops":
        # a history: list of [op, args...]; returns the result of the last one
        r = None
        for o in call[1]:
            if o[0] == "seek":
                r = obj.seek(*o[1:])
            elif o[0] == "read":
                r = obj.read(*o[1:])
            elif o[0] == "peek":
                r = obj.peek(*o[1:])
            elif o[0] == "read_sectors":
                r = obj.read_sectors(*o[1:])
            elif o[0] == "_read":
                r = obj._read(*o[1:])
            elif o[0] == "tell":
                r = obj.tell()
        return r
    if op == "open":
        return b""
    if op == "attr":
        return getattr(obj, call[1])
    raise ValueError(f"unknown call {op}")


def main():
    try:
        raw = open(sys.argv[1]).read() if len(sys.argv) > 1 else sys.stdin.read()
        desc = json.loads(raw)
        from symx import replay_entries  # noqa: F401  (registers the remaining openers)

        files = {k: mkfile(v, name=v.get("name")) for k, v in desc.get("files", {}).items()}
        opaque = {k: mkfile(v) for k, v in desc.get("opaque", {}).items()}
        opener = OPENERS[desc["entry"]]
    except Exception:  # noqa: BLE001
        traceback.print_exc()
        print("REPLAY-ERROR could not set up")
        return 2
    exp = desc.get("expect", {})
    try:
        obj = opener(files, opaque, desc.get("params", {}))
        res = do_call(obj, desc["call"])
    except Exception as ex:  # noqa: BLE001 - the real code may raise anything
        got = type(ex).__name__
        if "raises" in exp:
            ok = exp["raises"] in ("*", got) or got in exp["raises"].split("|")
            print(f"{'MATCH' if ok else 'MISMATCH'} raised {got}: {ex}")
            return 0 if ok else 1
        print(f"MISMATCH raised {got}: {str(ex)[:300]} (expected a result)")
        return 1
    if "raises" in exp:
        print(f"MISMATCH returned normally (expected {exp['raises']})")
        return 1
    if "value" in exp:
        ok = res == exp["value"] or (isinstance(res, (bytes, bytearray)) and res.hex() == exp["value"])
        print(f"{'MATCH' if ok else 'MISMATCH'} value {res!r} expected {exp['value']!r}")
        return 0 if ok else 1
    if "len" in exp and len(res) != exp["len"]:
        if not ("min_len" in exp and exp["min_len"] <= len(res) <= exp.get("max_len", exp["len"])):
            print(f"MISMATCH length {len(res)} expected {exp['len']}")
            return 1
    for j, v in exp.get("bytes", []):
        if j >= len(res) or res[j] != v:
            got = res[j] if j < len(res) else None
            print(f"MISMATCH byte {j}: got {got} expected {v}")
            return 1
    if "max_bytes_read" in exp:
        total = sum(f.bytes_read for f in files.values())
        if total > exp["max_bytes_read"]:
            print(f"MISMATCH bytes read {total} > bound {exp['max_bytes_read']}")
            return 1
    print("MATCH")
    return 0


if __name__ == "__main__":
    sys.exit(main())

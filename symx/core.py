"""symx core: symbolic integers with a dual encoding and the path explorer.

Every SymInt carries
  * an Int/UF term  (``iv``) that lives in one persistent incremental z3 solver and only *steers*
    path exploration (it may over-approximate, which can only cost time), and
  * a bit-vector/UF term (``bv``) of width W that is exact; every obligation, every reported
    exception and every reachability witness is decided on it in a fresh solver, and
  * a conservative interval [lo, hi] used to prove that no W-bit operation wraps (otherwise the
    operation raises Unsupported and the run is inconclusive).

The code under test runs on the real CPython interpreter; a branch on a SymBool asks the engine,
which explores both sides depth-first by re-executing the harness once per path.
"""
from __future__ import annotations

import os
import time

import z3


class Unsupported(Exception):
    """The code under test did something the encoding cannot express exactly. Inconclusive."""


class Inconclusive(Exception):
    """A deciding query came back unknown."""


class PathAbort(BaseException):
    """Steers the interpreter out of an infeasible or exhausted path (BaseException on purpose)."""


class BudgetExhausted(PathAbort):
    pass


class SplitHere(PathAbort):
    """The path reached the split depth: its decision prefix is handed to another worker."""


def guarded_check(solver, timeout_ms):
    """solver.check() with a hard deadline: z3's own timeout is soft (bit-blasting and preprocessing can overshoot
    it by minutes); a watchdog thread interrupts the context shortly after the deadline."""
    import threading

    t = threading.Timer(timeout_ms / 1000.0 * 1.25 + 0.5, solver.ctx.interrupt)
    t.daemon = True
    t.start()
    try:
        return solver.check()
    except z3.Z3Exception:
        return z3.unknown
    finally:
        t.cancel()


class _State:
    concretize_shift = True
    W = 72
    LIM = 1 << 71
    engine = None


S = _State()


def set_width(w: int) -> None:
    S.W = w
    S.LIM = 1 << (w - 1)


def eng() -> "Engine":
    return S.engine


def bvval(v: int):
    if not (-S.LIM <= v < S.LIM):
        raise Unsupported(f"constant {v} does not fit the {S.W}-bit encoding")
    return z3.BitVecVal(v, S.W)


def parts(x):
    """-> (bv, iv, lo, hi) of an int-like."""
    if isinstance(x, SymInt):
        return x.bv, x.iv, x.lo, x.hi
    if isinstance(x, SymBool):
        return (z3.If(x.bv, bvval(1), bvval(0)), z3.If(x.iv, z3.IntVal(1), z3.IntVal(0)), 0, 1)
    if isinstance(x, (bool, int)):
        x = int(x)
        return bvval(x), z3.IntVal(x), x, x
    if hasattr(x, "__index__") and not isinstance(x, (bytes, str, float)):
        x = x.__index__()  # IntEnum and friends
        return bvval(x), z3.IntVal(x), x, x
    raise Unsupported(f"cannot lift {type(x).__name__} to a symbolic integer")


def bv(x):
    return parts(x)[0]


def iv(x):
    return parts(x)[1]


def mk(b, i, lo, hi, tz=0):
    if lo == hi:
        return lo
    if lo > hi:
        raise Unsupported(f"empty interval [{lo},{hi}]")
    if not (-S.LIM <= lo and hi < S.LIM):
        raise Unsupported(f"possible overflow of the {S.W}-bit encoding: [{lo},{hi}]")
    return SymInt(b, i, lo, hi, tz)


def tz_of(x):
    """number of low bits known to be zero"""
    if isinstance(x, SymInt):
        return x.tz
    if isinstance(x, int) and not isinstance(x, bool):
        return 128 if x == 0 else (x & -x).bit_length() - 1
    return 0


def bv_divmod(xb, c):
    """(x udiv c, x urem c) for a non-negative W-bit term and a positive constant. For constants that are not a
    power of two the quotient and remainder are fresh constants defined by x = q*c + r, r < c: multiplication by
    a constant bit-blasts far better than division. The definition is total, so adding it to the path condition
    does not restrict x."""
    W = S.W
    if c & (c - 1) == 0:
        k = c.bit_length() - 1
        if k == 0:
            return xb, bvval(0)
        return z3.LShR(xb, bvval(k)), z3.ZeroExt(W - k, z3.Extract(k - 1, 0, xb))
    xs = z3.simplify(xb)
    if z3.is_bv_value(xs):
        v = xs.as_long()
        return bvval(v // c), bvval(v % c)
    e = eng()
    cache = e.divcache
    key = (xs.get_id(), c)
    if key in cache:
        return cache[key][1], cache[key][2]
    n = len(cache)
    q, r = z3.BitVec(f"_q{n}", W), z3.BitVec(f"_r{n}", W)
    e.pc_bv.append(z3.And(xb == q * bvval(c) + r, z3.ULT(r, bvval(c)), z3.ULE(q, bvval((S.LIM - 1) // c))))
    cache[key] = (xs, q, r)
    return q, r


def is_sym(x) -> bool:
    return isinstance(x, (SymInt, SymBool))


def int_and_const(x, m):
    """x & m (m >= 0 constant) in linear integer arithmetic; exact for negative x too (z3 mod = Python mod)."""
    res = z3.IntVal(0)
    bit = 0
    while m >> bit:
        if (m >> bit) & 1:
            lo = bit
            while (m >> bit) & 1:
                bit += 1
            hi = bit
            part = (x % (1 << hi)) - (x % (1 << lo)) if lo else (x % (1 << hi))
            res = res + part
        else:
            bit += 1
    return res


class SymBool:
    __slots__ = ("bv", "iv")

    def __init__(self, b, i):
        self.bv, self.iv = b, i

    def __bool__(self):
        return eng().decide(self)

    def __invert__(self):
        return SymBool(z3.Not(self.bv), z3.Not(self.iv))

    def _lift(self, o):
        if isinstance(o, SymBool):
            return o.bv, o.iv
        if isinstance(o, bool):
            return z3.BoolVal(o), z3.BoolVal(o)
        return None

    def __and__(self, o):
        l = self._lift(o)
        if l is None:
            return NotImplemented
        return mkb(z3.And(self.bv, l[0]), z3.And(self.iv, l[1]))

    __rand__ = __and__

    def __or__(self, o):
        l = self._lift(o)
        if l is None:
            return NotImplemented
        return mkb(z3.Or(self.bv, l[0]), z3.Or(self.iv, l[1]))

    __ror__ = __or__

    def __eq__(self, o):
        l = self._lift(o)
        if l is None:
            if isinstance(o, (int, SymInt)):
                return as_int(self) == o
            return NotImplemented
        return mkb(self.bv == l[0], self.iv == l[1])

    def __ne__(self, o):
        r = self.__eq__(o)
        if r is NotImplemented:
            return r
        return (not r) if isinstance(r, bool) else ~r

    def __hash__(self):
        return 0

    def __index__(self):
        return int(bool(self))

    def __repr__(self):
        return f"SymBool({self.iv})"


def as_int(x):
    if isinstance(x, SymBool):
        b, i, lo, hi = parts(x)
        return SymInt(b, i, 0, 1)
    return x


def mkb(b, i):
    s = z3.simplify(b)
    if z3.is_true(s):
        return True
    if z3.is_false(s):
        return False
    return SymBool(b, i)


def sym_not(x):
    if isinstance(x, SymBool):
        return ~x
    return not x


def sym_and(*xs):
    bs, is_ = [], []
    for x in xs:
        if isinstance(x, SymBool):
            bs.append(x.bv)
            is_.append(x.iv)
        elif isinstance(x, SymInt):
            x = x != 0
            if isinstance(x, SymBool):
                bs.append(x.bv)
                is_.append(x.iv)
            elif not x:
                return False
        elif not x:
            return False
    if not bs:
        return True
    return mkb(z3.And(*bs), z3.And(*is_))


def sym_or(*xs):
    bs, is_ = [], []
    for x in xs:
        if isinstance(x, SymBool):
            bs.append(x.bv)
            is_.append(x.iv)
        elif isinstance(x, SymInt):
            x = x != 0
            if isinstance(x, SymBool):
                bs.append(x.bv)
                is_.append(x.iv)
            elif x:
                return True
        elif x:
            return True
    if not bs:
        return False
    return mkb(z3.Or(*bs), z3.Or(*is_))


def _mulrng(a, b):
    c = [a[0] * b[0], a[0] * b[1], a[1] * b[0], a[1] * b[1]]
    return min(c), max(c)


class SymInt:
    __slots__ = ("bv", "iv", "lo", "hi", "tz")

    def __init__(self, b, i, lo, hi, tz=0):
        self.bv, self.iv, self.lo, self.hi, self.tz = b, i, lo, hi, tz

    # -- arithmetic
    def __add__(self, o):
        try:
            b, i, l, h = parts(o)
        except Unsupported:
            return NotImplemented
        return mk(self.bv + b, self.iv + i, self.lo + l, self.hi + h, min(self.tz, tz_of(o)))

    __radd__ = __add__

    def __sub__(self, o):
        try:
            b, i, l, h = parts(o)
        except Unsupported:
            return NotImplemented
        return mk(self.bv - b, self.iv - i, self.lo - h, self.hi - l)

    def __rsub__(self, o):
        try:
            b, i, l, h = parts(o)
        except Unsupported:
            return NotImplemented
        return mk(b - self.bv, i - self.iv, l - self.hi, h - self.lo)

    def __mul__(self, o):
        if isinstance(o, (bytes, bytearray)) or hasattr(o, "__symx_repeat__"):
            return self.__rmul__(o)
        if isinstance(o, SymInt):
            # as for symbolic divisors: one factor is enumerated (fork over at most 8 values, else unsupported)
            a, c = (self, o) if (o.hi - o.lo) <= (self.hi - self.lo) else (o, self)
            en = eng()
            for x, y in ((c, a), (a, c)):
                # a factor that has a single possible value on this path is a constant
                m = en._model()
                if m is not None:
                    v = m.eval(x.iv, model_completion=True).as_long()
                    try:
                        if en.decide_case(x != v) is None:
                            return y * v
                    except Inconclusive:
                        pass
            return a * en.concretize(c, cap=8)
        try:
            b, i, l, h = parts(o)
        except Unsupported:
            return NotImplemented
        if l == 0:
            return 0
        lo, hi = _mulrng((self.lo, self.hi), (l, h))
        return mk(self.bv * b, self.iv * i, lo, hi, self.tz + (tz_of(o) if isinstance(o, int) and o != 0 else 0))

    def __rmul__(self, o):
        if isinstance(o, (bytes, bytearray)):
            from symx.sbytes import SymBytes

            return SymBytes.from_bytes(bytes(o)).__symx_repeat__(self)
        if hasattr(o, "__symx_repeat__"):
            return o.__symx_repeat__(self)
        return self.__mul__(o)

    def __neg__(self):
        return mk(-self.bv, -self.iv, -self.hi, -self.lo)

    def __pos__(self):
        return self

    def __abs__(self):
        if self.lo >= 0:
            return self
        if self.hi <= 0:
            return -self
        return sym_max(self, -self)

    def __floordiv__(self, o):
        if isinstance(o, int) and not isinstance(o, bool) and o > 0:
            if o == 1:
                return self
            if o & (o - 1) == 0:
                k = o.bit_length() - 1
                return mk(self.bv >> k, self.iv / o, self.lo >> k, self.hi >> k)
            if self.lo < 0:
                ob = bvval(o)
                q = z3.If(self.bv >= bvval(0), z3.UDiv(self.bv, ob), -z3.UDiv(-self.bv + bvval(o - 1), ob))
                return mk(q, self.iv / o, self.lo // o, self.hi // o)
            return mk(bv_divmod(self.bv, o)[0], self.iv / o, self.lo // o, self.hi // o)
        if isinstance(o, SymInt):
            # a divisor with few feasible values (an enumerated geometry read from the file): fork over them
            return self // eng().concretize(o, cap=8)
        if isinstance(o, int) and o == 0:
            raise ZeroDivisionError("integer division or modulo by zero")
        raise Unsupported("floor division by a non-positive constant")

    def __rfloordiv__(self, o):
        return o // eng().concretize(self, cap=8)

    def __truediv__(self, o):
        raise Unsupported("true division of a symbolic integer")

    __rtruediv__ = __truediv__

    def __mod__(self, o):
        if isinstance(o, int) and not isinstance(o, bool) and o > 0:
            if o == 1:
                return 0
            if o & (o - 1) == 0:
                k = o.bit_length() - 1
                if self.lo >= 0 and self.hi < o:
                    return self
                hi = min(o - 1, self.hi) if self.lo >= 0 else o - 1
                return mk(z3.ZeroExt(S.W - k, z3.Extract(k - 1, 0, self.bv)), self.iv % o, 0, hi)
            if self.lo < 0:
                q = self // o
                return mk(self.bv - parts(q)[0] * bvval(o), self.iv % o, 0, o - 1)
            if self.hi < o:
                return self
            return mk(bv_divmod(self.bv, o)[1], self.iv % o, 0, min(o - 1, self.hi))
        if isinstance(o, SymInt):
            return self % eng().concretize(o, cap=8)
        if isinstance(o, int) and o == 0:
            raise ZeroDivisionError("integer division or modulo by zero")
        raise Unsupported("modulo by a non-positive constant")

    def __rmod__(self, o):
        raise Unsupported("modulo by a symbolic value")

    def __divmod__(self, o):
        return self // o, self % o

    def __rdivmod__(self, o):
        raise Unsupported("division by a symbolic value")

    def __pow__(self, o, m=None):
        raise Unsupported("power of a symbolic integer")

    def __rpow__(self, o, m=None):
        if o == 2 and m is None:
            return 1 << self
        raise Unsupported("symbolic exponent")

    @staticmethod
    def _shift(x, amt, left):
        xb, xi, xl, xh = parts(x)
        if not (isinstance(amt, SymInt) and amt.lo >= 0 and amt.hi <= 72):
            raise Unsupported("shift by an unbounded symbolic amount")
        ivt = None
        for k in range(amt.hi, amt.lo - 1, -1):
            term = xi * (1 << k) if left else xi / (1 << k)
            ivt = term if ivt is None else z3.If(amt.iv == k, term, ivt)
        if left:
            cands = [xl << amt.lo, xl << amt.hi, xh << amt.lo, xh << amt.hi]
            return mk(xb << amt.bv, ivt, min(cands), max(cands))
        cands = [xl >> amt.lo, xl >> amt.hi, xh >> amt.lo, xh >> amt.hi]
        return mk(xb >> amt.bv, ivt, min(cands), max(cands))

    def __lshift__(self, o):
        if isinstance(o, int) and o >= 0:
            return self * (1 << o)
        return SymInt._shift(self, o, True)

    def __rlshift__(self, o):
        if isinstance(o, int) and S.concretize_shift:
            # a single-bit mask built from a small symbolic index: fork over the index so that the mask is a
            # constant afterwards (x & const is exact in both encodings)
            return o << eng().concretize(self)
        return SymInt._shift(o, self, True)

    def __rshift__(self, o):
        if isinstance(o, int) and o >= 0:
            return self // (1 << o)
        return SymInt._shift(self, o, False)

    def __rrshift__(self, o):
        return SymInt._shift(o, self, False)

    def __and__(self, o):
        try:
            b, i, l, h = parts(o)
        except Unsupported:
            return NotImplemented
        if isinstance(o, int) and o == 0:
            return 0
        if l >= 0 and self.lo >= 0:
            lo, hi = 0, min(self.hi, h)
        elif l >= 0:
            lo, hi = 0, h
        elif self.lo >= 0:
            lo, hi = 0, self.hi
        else:
            bits = max(self.hi.bit_length(), h.bit_length(), (-self.lo).bit_length(), (-l).bit_length())
            lo, hi = -(1 << bits), (1 << bits) - 1
        if isinstance(o, int) and o >= 0:
            if self.lo >= 0 and (o + 1) & o == 0 and self.hi <= o:
                return self  # mask wider than the value
            ivt = int_and_const(self.iv, o)
        else:
            ivt = eng().fresh_int(lo, hi)  # over-approximation in the steering encoding only
        return mk(self.bv & b, ivt, lo, hi, max(self.tz, tz_of(o) if isinstance(o, int) and o > 0 else 0))

    __rand__ = __and__

    def __or__(self, o):
        try:
            b, i, l, h = parts(o)
        except Unsupported:
            return NotImplemented
        if isinstance(o, int) and o == 0:
            return self
        if self.lo < 0 or l < 0:
            raise Unsupported("| on a possibly negative value")
        bits = max(self.hi.bit_length(), h.bit_length())
        lo, hi = max(self.lo, l), (1 << bits) - 1
        if isinstance(o, int):
            ivt = self.iv + o - int_and_const(self.iv, o)
        elif (self.hi < (1 << min(tz_of(o), 200))) or (h < (1 << min(self.tz, 200))):
            ivt = self.iv + i  # the operands have no bit in common: x | y == x + y
        else:
            ivt = eng().fresh_int(lo, hi)
        return mk(self.bv | b, ivt, lo, hi, min(self.tz, tz_of(o)))

    __ror__ = __or__

    def __xor__(self, o):
        try:
            b, i, l, h = parts(o)
        except Unsupported:
            return NotImplemented
        if self.lo < 0 or l < 0:
            raise Unsupported("^ on a possibly negative value")
        bits = max(self.hi.bit_length(), h.bit_length())
        if isinstance(o, int):
            ivt = self.iv + o - 2 * int_and_const(self.iv, o)
        else:
            ivt = eng().fresh_int(0, (1 << bits) - 1)
        return mk(self.bv ^ b, ivt, 0, (1 << bits) - 1)

    __rxor__ = __xor__

    def __invert__(self):
        return mk(~self.bv, -self.iv - 1, -self.hi - 1, -self.lo - 1)

    # -- comparisons
    def _cmp(self, o, fb, fi, decided):
        try:
            b, i, l, h = parts(o)
        except Unsupported:
            return NotImplemented
        d = decided(self.lo, self.hi, l, h)
        if d is not None:
            return d
        return mkb(fb(self.bv, b), fi(self.iv, i))

    def __lt__(self, o):
        return self._cmp(o, lambda a, b: a < b, lambda a, b: a < b,
                         lambda l1, h1, l2, h2: True if h1 < l2 else (False if l1 >= h2 else None))

    def __le__(self, o):
        return self._cmp(o, lambda a, b: a <= b, lambda a, b: a <= b,
                         lambda l1, h1, l2, h2: True if h1 <= l2 else (False if l1 > h2 else None))

    def __gt__(self, o):
        return self._cmp(o, lambda a, b: a > b, lambda a, b: a > b,
                         lambda l1, h1, l2, h2: True if l1 > h2 else (False if h1 <= l2 else None))

    def __ge__(self, o):
        return self._cmp(o, lambda a, b: a >= b, lambda a, b: a >= b,
                         lambda l1, h1, l2, h2: True if l1 >= h2 else (False if h1 < l2 else None))

    def __eq__(self, o):
        if o is None or isinstance(o, (str, bytes, tuple, list, float)):
            return False
        r = self._cmp(o, lambda a, b: a == b, lambda a, b: a == b,
                      lambda l1, h1, l2, h2: False if (h1 < l2 or h2 < l1) else None)
        return False if r is NotImplemented else r

    def __ne__(self, o):
        if o is None or isinstance(o, (str, bytes, tuple, list, float)):
            return True
        r = self._cmp(o, lambda a, b: a != b, lambda a, b: a != b,
                      lambda l1, h1, l2, h2: True if (h1 < l2 or h2 < l1) else None)
        return True if r is NotImplemented else r

    def __bool__(self):
        if self.lo > 0 or self.hi < 0:
            return True
        return eng().decide(SymBool(self.bv != bvval(0), self.iv != 0))

    def __hash__(self):
        return 0

    def __index__(self):
        return eng().concretize(self)

    __int__ = __index__

    def bit_length(self):
        raise Unsupported("bit_length of a symbolic integer")

    def __format__(self, spec):
        return "<sym>"

    def __repr__(self):
        return f"SymInt[{self.lo},{self.hi}]"

    __str__ = __repr__


def ite(c, x, y):
    """If(c, x, y) on int-likes; c is SymBool or bool."""
    if isinstance(c, bool):
        return x if c else y
    xb, xi, xl, xh = parts(x)
    yb, yi, yl, yh = parts(y)
    return mk(z3.If(c.bv, xb, yb), z3.If(c.iv, xi, yi), min(xl, yl), max(xh, yh))


def _min2(r, x):
    if isinstance(r, SymInt) or isinstance(x, SymInt):
        xb, xi, l2, h2 = parts(x)
        rb, ri, l1, h1 = parts(r)
        if h2 <= l1:
            return x
        if h1 <= l2:
            return r
        return mk(z3.If(xb < rb, xb, rb), z3.If(xi < ri, xi, ri), min(l1, l2), min(h1, h2))
    return min(r, x)


def _max2(r, x):
    if isinstance(r, SymInt) or isinstance(x, SymInt):
        xb, xi, l2, h2 = parts(x)
        rb, ri, l1, h1 = parts(r)
        if l2 >= h1:
            return x
        if l1 >= h2:
            return r
        return mk(z3.If(xb > rb, xb, rb), z3.If(xi > ri, xi, ri), max(l1, l2), max(h1, h2))
    return max(r, x)


def sym_min(*a, **kw):
    if kw:
        return min(*a, **kw)
    if len(a) == 1:
        a = tuple(a[0])
    if not any(isinstance(x, SymInt) for x in a):
        return min(a)
    r = a[0]
    for x in a[1:]:
        r = _min2(r, x)
    return r


def sym_max(*a, **kw):
    if kw:
        return max(*a, **kw)
    if len(a) == 1:
        a = tuple(a[0])
    if not any(isinstance(x, SymInt) for x in a):
        return max(a)
    r = a[0]
    for x in a[1:]:
        r = _max2(r, x)
    return r


def fork_min(*a, **kw):
    """min() that decides the comparison (one branch per outcome) instead of building an If term: keeps the
    terms of the following loop iterations linear."""
    if kw:
        return min(*a, **kw)
    if len(a) == 1:
        a = tuple(a[0])
    if not any(isinstance(x, SymInt) for x in a):
        return min(a)
    r = a[0]
    for x in a[1:]:
        if x < r:
            r = x
    return r


def fork_max(*a, **kw):
    if kw:
        return max(*a, **kw)
    if len(a) == 1:
        a = tuple(a[0])
    if not any(isinstance(x, SymInt) for x in a):
        return max(a)
    r = a[0]
    for x in a[1:]:
        if x > r:
            r = x
    return r


class _SymRange:
    """range() with symbolic bounds: forks lazily, one decision per iteration."""

    def __init__(self, start, stop):
        self.start, self.stop = start, stop

    def __iter__(self):
        i = self.start
        while i < self.stop:
            yield i
            i = i + 1

    def __len__(self):
        n = sym_max(self.stop - self.start, 0)
        return n.__index__() if isinstance(n, SymInt) else n


def sym_range(*a):
    if not any(isinstance(x, (SymInt, SymBool)) for x in a):
        return range(*a)
    if len(a) == 1:
        return _SymRange(0, a[0])
    if len(a) == 2:
        return _SymRange(a[0], a[1])
    raise Unsupported("range() with a symbolic bound and a step")


def sym_divmod(a, b):
    return a // b, a % b


def sym_isinstance(obj, cls):
    """isinstance that lets SymInt pass for int (the code under test never subclass-checks proxies otherwise)."""
    if isinstance(obj, SymInt):
        if cls is int or (isinstance(cls, tuple) and int in cls):
            return True
    return isinstance(obj, cls)


class Engine:
    def __init__(self, name="", max_paths=200000, max_decisions=4000, bv_timeout_ms=120000, int_timeout_ms=3000):
        self.name = name
        self.max_paths = max_paths
        self.max_decisions = max_decisions
        self.bv_timeout_ms = bv_timeout_ms
        self.int_timeout_ms = int_timeout_ms
        self.stats = dict(paths=0, feasible_paths=0, decisions=0, int_checks=0, int_s=0.0, int_unknown=0,
                          bv_checks=0, bv_s=0.0, aborted=0, exhausted=0)
        self.vars = {}
        self.path_hooks = []  # callables run at the start of every path (reset per-path state)
        self.trace = bool(os.environ.get("SYMX_TRACE"))
        self.decide_first = os.environ.get("SYMX_DECIDE", "int")
        self.bv_quick_ms = 20000
        self.pref = None
        self.split_depth = 0
        self.forced_len = 0
        self.stop = False
        self.deadline = 0
        self.int_decide_ms = int(os.environ.get("SYMX_INT_MS", "10000"))

    # ---- variables ---------------------------------------------------------------------------
    def var(self, name, lo, hi):
        """A named symbolic integer in [lo, hi]; idempotent across re-executions."""
        if name not in self.vars:
            self.vars[name] = (z3.BitVec(name, S.W), z3.Int(name + "!i"))
        b, i = self.vars[name]
        self.assume_raw(z3.And(b >= bvval(lo), b <= bvval(hi)), z3.And(i >= lo, i <= hi))
        return SymInt(b, i, lo, hi) if lo != hi else lo

    def boolvar(self, name):
        if name not in self.vars:
            self.vars[name] = (z3.Bool(name), z3.Bool(name + "!i"))
        b, i = self.vars[name]
        return SymBool(b, i)

    def fresh_int(self, lo, hi):
        self.int_exact = False  # the steering encoding over-approximates from here on
        self._fresh += 1
        v = z3.Int(f"_approx{self._fresh}")
        self._add_int(z3.And(v >= lo, v <= hi))
        return v

    # ---- steering solver (Int): persistent, one push level per decision ----------------------------
    def _int_check(self, *extra):
        t = time.time()
        if extra:
            self.isolver.push()
            self.isolver.add(*extra)
        r = guarded_check(self.isolver, self.int_timeout_ms)
        m = self.isolver.model() if r == z3.sat else None
        if extra:
            self.isolver.pop()
        self.stats["int_checks"] += 1
        self.stats["int_s"] += time.time() - t
        if r == z3.unknown:
            self.stats["int_unknown"] += 1
        return r, m

    def _model(self):
        if self.cur_model is None:
            r, m = self._int_check()
            if r == z3.unsat:
                raise PathAbort("infeasible")
            self.cur_model = m  # None when unknown
        return self.cur_model

    def _add_int(self, c):
        # constraints issued while replaying the surviving prefix are still on the solver stack
        if self.cursor > self.replay_len:
            self.isolver.add(c)
            if self.cur_model is not None and not z3.is_true(self.cur_model.eval(c, model_completion=True)):
                self.cur_model = None

    def assume_raw(self, bvc, ic):
        self.pc_bv.append(bvc)
        self._add_int(ic)

    def assume(self, cond):
        """Constrain the current path by a SymBool / bool."""
        if isinstance(cond, SymBool):
            self.assume_raw(cond.bv, cond.iv)
        elif isinstance(cond, SymInt):
            self.assume(cond != 0)
        elif not cond:
            raise PathAbort("assumption is false")

    def assume_range(self, x, lo, hi):
        """Assume lo <= x <= hi and remember the narrower interval for later reads of the same term."""
        if not isinstance(x, SymInt):
            if not (lo <= x <= hi):
                raise PathAbort("assumption is false")
            return x
        self.assume(x >= lo)
        self.assume(x <= hi)
        nlo, nhi = max(lo, x.lo), min(hi, x.hi)
        self.bounds[x.bv.get_id()] = (x.bv, nlo, nhi)
        return mk(x.bv, x.iv, nlo, nhi)

    def decide(self, sb, payload=None):
        self.stats["decisions"] += 1
        i = self.cursor
        if i >= self.max_decisions:
            raise BudgetExhausted(f"decision budget {self.max_decisions} exhausted")
        if i < len(self.prefix):
            v = self.prefix[i][0]
            self.cursor += 1
            if self.cursor > self.replay_len:
                self.isolver.push()
                self.isolver.add(sb.iv if v else z3.Not(sb.iv))
                self.cur_model = None
            self.pc_bv.append(sb.bv if v else z3.Not(sb.bv))
            return v
        if self.split_depth and i >= self.split_depth and i >= self.forced_len:
            raise SplitHere()
        m = self._model()
        if m is not None:
            cur = z3.is_true(m.eval(sb.iv, model_completion=True))
            r, _ = self._int_check(z3.Not(sb.iv) if cur else sb.iv)
            other_ok = r != z3.unsat
        else:
            r1, _ = self._int_check(sb.iv)
            r2, _ = self._int_check(z3.Not(sb.iv))
            if r1 == z3.unsat and r2 == z3.unsat:
                raise PathAbort("infeasible")
            cur = r1 != z3.unsat
            other_ok = (r2 != z3.unsat) if cur else False
        if other_ok:
            v = True
            self.prefix.append([True, True, payload])
            if not cur:
                self.cur_model = None
        else:
            v = cur
            self.prefix.append([v, False, payload])
        self.cursor += 1
        self.isolver.push()
        self.isolver.add(sb.iv if v else z3.Not(sb.iv))
        self.pc_bv.append(sb.bv if v else z3.Not(sb.bv))
        return v

    def concretize(self, x, cap=72):
        n = 0
        if x.hi - x.lo <= cap:
            # small range: try the values in turn (no model needed)
            for v in range(x.lo, x.hi + 1):
                if v == x.hi:
                    self.assume(x == v)
                    return v
                if self.decide(SymBool(x.bv == bvval(v), x.iv == v)):
                    return v
        while True:
            i = self.cursor
            if i < len(self.prefix) and len(self.prefix[i]) > 2 and self.prefix[i][2] is not None:
                v = self.prefix[i][2]  # replay: the value tried at this decision is part of the path's identity
            else:
                m = self._model()
                if m is None:
                    raise Unsupported("steering solver has no model to concretise from")
                v = m.eval(x.iv, model_completion=True).as_long()
            if self.decide(SymBool(x.bv == bvval(v), x.iv == v), payload=v):
                return v
            n += 1
            if n > cap:
                raise Unsupported("concretisation cap exceeded")

    # ---- deciding solver (BV): fresh per query ------------------------------------------------------
    def bv_solve(self, *extra, timeout_ms=None):
        """Solve path condition + extra exactly. Returns a model or None (unsat). Raises Inconclusive."""
        t = time.time()
        s = z3.SolverFor("QF_UFBV")
        s.set("timeout", timeout_ms or self.bv_timeout_ms)
        s.add(*self.pc_bv)
        s.add(*extra)
        r = guarded_check(s, timeout_ms or self.bv_timeout_ms)
        self.stats["bv_checks"] += 1
        self.stats["bv_s"] += time.time() - t
        if r == z3.unknown:
            raise Inconclusive(f"deciding solver returned unknown ({s.reason_unknown()})")
        return s.model() if r == z3.sat else None

    def feasible(self):
        return self.decide_case(True) is not None

    def decide_case(self, case, extra=(), first=None):
        """Is (path condition and case and extra) satisfiable? Returns a BV model, or None when unsatisfiable.
        case/extra: SymBool or bool. Decided on the exact bit-vector encoding; when that times out and the integer
        encoding of this path is exact (no over-approximated operation), the integer encoding decides instead
        (linear arithmetic copes with division by constants that are not powers of two, bit-blasting does not)."""
        conds = [case] + list(extra)
        if any(c is False for c in conds):
            return None
        bvc = [c.bv for c in conds if isinstance(c, SymBool)]
        ivc = [c.iv for c in conds if isinstance(c, SymBool)]
        f = first or self.pref or self.decide_first
        o = "bv" if f == "int" else "int"
        if not self.int_exact:
            attempts = [("bv", self.bv_timeout_ms)]
        else:
            # escalating rounds, alternating encodings: neither is uniformly faster
            attempts = [(f, 1500), (o, 1500), (f, 10000), (o, 10000), (f, 60000), (o, 60000), ("bv", self.bv_timeout_ms)]
        last = None
        for which, tmo in attempts:
            if which == "bv":
                try:
                    r_ = self.bv_solve(*bvc, timeout_ms=tmo)
                    self.pref = "bv"
                    return r_
                except Inconclusive as ex:
                    last = ex
                    continue
            t = time.time()
            self.isolver.push()
            self.isolver.set("timeout", tmo)
            try:
                self.isolver.add(*ivc)
                r = guarded_check(self.isolver, tmo)
                m = self.isolver.model() if r == z3.sat else None
            finally:
                self.isolver.set("timeout", self.int_timeout_ms)
                self.isolver.pop()
            self.stats["int_decides"] = self.stats.get("int_decides", 0) + 1
            self.stats["int_s"] += time.time() - t
            if r == z3.unsat:
                self.pref = "int"
                return None
            if r == z3.sat:
                self.pref = "int"
                pins = []
                for name, (b_, i_) in self.vars.items():
                    if z3.is_bool(b_):
                        continue
                    v = m.eval(i_, model_completion=True)
                    if z3.is_int_value(v):
                        pins.append(b_ == bvval(v.as_long()))
                try:
                    bm = self.bv_solve(*bvc, *pins)
                except Inconclusive as ex:
                    last = ex
                    continue
                if bm is None:
                    # the integer model may fix auxiliary variables (fresh quotients, enumerated members) to values the
                    # exact encoding determines otherwise: ask the exact encoding without the pins before giving up
                    try:
                        bm = self.bv_solve(*bvc, timeout_ms=10000)
                    except Inconclusive as ex:
                        last = ex
                        continue
                    self.stats["pin_retries"] = self.stats.get("pin_retries", 0) + 1
                    if bm is None:
                        raise Inconclusive("integer and bit-vector encodings disagree on a satisfiable case")
                return bm
            last = Inconclusive("integer deciding query returned unknown")
        raise last or Inconclusive("no encoding could decide the case")

    # ---- exploration ----------------------------------------------------------------------------
    def explore(self, fn, on_path=None, forced_prefix=None):
        """Run fn(engine) once per feasible path. Returns list of (kind, payload):
        kind in {"ok", "raise", "exhausted"}; infeasible paths are dropped.
        forced_prefix: list of bools; only paths that extend it are explored."""
        S.engine = self
        self.prefix = []
        self.forced_len = 0
        self.pending = []
        if forced_prefix:
            self.prefix = [[bool(v[0]), False, v[1]] if isinstance(v, (list, tuple)) else [bool(v), False, None]
                           for v in forced_prefix]
            self.forced_len = len(forced_prefix)
        self.isolver = z3.Solver()
        self.isolver.set("timeout", self.int_timeout_ms)
        self.replay_len = -1
        results = []
        while True:
            self.cursor = 0
            self.cur_model = None
            self.pc_bv = []
            self._fresh = 0
            self.divcache = {}
            self.bounds = {}
            self.int_exact = True
            for h in self.path_hooks:
                h()
            try:
                outcome = ("ok", fn(self))
            except SplitHere:
                self.pending.append([[bool(e[0]), e[2] if len(e) > 2 else None] for e in self.prefix[: self.cursor]])
                outcome = None
                self.stats["aborted"] -= 1
            except BudgetExhausted as ex:
                # a path that exceeds its unwinding bound is reported only if it is really feasible
                if self.feasible():
                    outcome = ("exhausted", ex)
                    self.stats["exhausted"] += 1
                else:
                    outcome = None
            except PathAbort:
                outcome = None
            except (Unsupported, Inconclusive):
                raise
            except Exception as ex:  # noqa: BLE001 - the code under test may raise anything
                outcome = ("raise", ex) if self.feasible() else None
            self.stats["paths"] += 1
            if outcome is None:
                self.stats["aborted"] += 1
            else:
                self.stats["feasible_paths"] += 1
                results.append(outcome)
                if on_path:
                    on_path(outcome)
            if self.trace:
                print("path", self.stats["paths"], outcome and outcome[0], "depth", len(self.prefix), flush=True)
            if self.stats["paths"] >= self.max_paths:
                raise Unsupported(f"path budget {self.max_paths} exceeded")
            if self.stop:
                break  # a confirmed violation was recorded: no need to explore further
            if self.deadline and time.time() > self.deadline:
                raise Inconclusive("time budget of the task exceeded before the exploration finished")
            while self.prefix and not self.prefix[-1][1]:
                self.prefix.pop()
            if not self.prefix:
                break
            depth = self.isolver.num_scopes()
            keep = len(self.prefix) - 1
            if depth > keep:
                self.isolver.pop(depth - keep)
            last = self.prefix[-1]
            last[0] = not last[0]
            last[1] = False
            self.replay_len = keep
        return results

"""Function summaries computed by symbolic execution of the *real* function.

summarize(fn, lo, hi, *rest) explores fn(x, *rest) for a fresh symbolic x in [lo, hi] with a private engine and
returns a stand-in that, applied to an actual argument a, yields If(pc1[a/x], r1, If(pc2[a/x], r2, ...)) in both
encodings - no forks at the call site. The summary is rebuilt from the current source on every run, so a change to
the summarised function changes the summary."""
from __future__ import annotations

import z3

from symx import core
from symx.core import Engine, SymInt, Unsupported, parts


def summarize(fn, lo, hi, *rest, name="x", max_paths=300):
    saved = core.S.engine
    E = Engine(name=f"summary:{getattr(fn, '__name__', 'fn')}", max_paths=max_paths, max_decisions=400)
    cases = []

    def body(E):
        x = E.var(f"_sum_{name}", lo, hi)
        r = fn(x, *rest)
        if not E.int_exact:
            raise Unsupported("summary path is not exact in the integer encoding")
        rb, ri, rlo, rhi = parts(r)
        # path condition: everything after the variable's range constraint
        cases.append((z3.And(*E.pc_bv[1:]) if len(E.pc_bv) > 1 else z3.BoolVal(True), list(E.ipc), rb, ri, rlo, rhi))

    # collect the Int path condition explicitly
    orig_decide = E.decide

    def decide(sb):
        v = orig_decide(sb)
        E.ipc.append(sb.iv if v else z3.Not(sb.iv))
        return v

    E.decide = decide
    E.path_hooks.append(lambda: setattr(E, "ipc", []))
    try:
        res = E.explore(body)
    finally:
        core.S.engine = saved
    for kind, payload in res:
        if kind != "ok":
            raise Unsupported(f"summarised function raised or did not terminate: {kind} {payload}")
    xb, xi = E.vars[f"_sum_{name}"]
    W = core.S.W

    def summary(a, *rest2):
        if not isinstance(a, SymInt):
            return fn(a, *rest2)
        if rest2 != rest:
            raise Unsupported("summary called with other fixed arguments")
        if a.lo < lo or a.hi > hi:
            raise Unsupported("summary argument outside the summarised range")
        ab, ai = a.bv, a.iv
        rb = ri = None
        rlo, rhi = None, None
        for pcb, pci, vb, vi, vlo, vhi in reversed(cases):
            cb = z3.substitute(pcb, (xb, ab))
            ci = z3.substitute(z3.And(*pci) if pci else z3.BoolVal(True), (xi, ai))
            vb2 = z3.substitute(vb, (xb, ab))
            vi2 = z3.substitute(vi, (xi, ai))
            if rb is None:
                rb, ri = vb2, vi2
                rlo, rhi = vlo, vhi
            else:
                rb, ri = z3.If(cb, vb2, rb), z3.If(ci, vi2, ri)
                rlo, rhi = min(rlo, vlo), max(rhi, vhi)
        return core.mk(rb, ri, rlo, rhi)

    summary.cases = len(cases)
    summary.__name__ = f"summary_of_{getattr(fn, '__name__', 'fn')}"
    return summary


def lazy(fn, lo, hi):
    """Wrapper that summarises fn(x, *rest) on demand, once per distinct tuple of fixed arguments."""
    cache = {}

    def wrapper(a, *rest):
        if not isinstance(a, SymInt):
            return fn(a, *rest)
        if any(isinstance(r, SymInt) for r in rest):
            raise Unsupported("summarised function called with a symbolic fixed argument")
        if rest not in cache:
            cache[rest] = summarize(fn, lo, hi, *rest)
        return cache[rest](a, *rest)

    wrapper.__name__ = f"lazy_summary_of_{getattr(fn, '__name__', 'fn')}"
    wrapper.__wrapped__ = fn
    return wrapper

"""Loads a module of the code under test from its *current source text* into a private module object.

Two mechanical, semantics-preserving AST rewrites are applied (line numbers are preserved):
  X.join(Y)            -> __symx_join__(X, Y)     (bytes.join is a C method that rejects proxy items)
  isinstance(a, b)     -> __symx_isinstance__(a, b) (SymInt passes for int)
Selected builtins are shadowed in the module namespace (min, max, range, divmod), and the caller replaces
module globals (c_xxx, zlib, lru_cache, ...) by symbolic-aware stand-ins. Function bodies are otherwise the
repository's, byte for byte, and are re-read from disk on every run.
"""
from __future__ import annotations

import ast
import sys
import types

from symx import core, sbytes

REPO = "/repo"


class _Rewriter(ast.NodeTransformer):
    def visit_Call(self, node):
        self.generic_visit(node)
        f = node.func
        if isinstance(f, ast.Attribute) and f.attr == "join" and len(node.args) == 1 and not node.keywords:
            return ast.copy_location(
                ast.Call(func=ast.Name(id="__symx_join__", ctx=ast.Load()), args=[f.value, node.args[0]], keywords=[]),
                node)
        if isinstance(f, ast.Name) and f.id == "isinstance" and len(node.args) == 2 and not node.keywords:
            return ast.copy_location(
                ast.Call(func=ast.Name(id="__symx_isinstance__", ctx=ast.Load()), args=node.args, keywords=[]), node)
        return node

    def visit_Dict(self, node):
        self.generic_visit(node)
        return ast.copy_location(ast.Call(func=ast.Name(id="__symx_dict__", ctx=ast.Load()), args=[node], keywords=[]), node)

    def visit_DictComp(self, node):
        self.generic_visit(node)
        return ast.copy_location(ast.Call(func=ast.Name(id="__symx_dict__", ctx=ast.Load()), args=[node], keywords=[]), node)


class SymDict(dict):
    """dict whose lookups fall back to a linear search with symbolic == when a proxy key is involved (a real dict
    never compares a proxy with a concrete key: their hashes differ)."""

    @staticmethod
    def _is_proxy(k):
        return isinstance(k, (core.SymInt, core.SymBool)) or type(k).__name__ in ("SymStr", "SymBytes", "SymGuid")

    def _find(self, key):
        if not self._is_proxy(key):
            if dict.__contains__(self, key):
                return key
            for k in dict.keys(self):
                if self._is_proxy(k) and bool(k == key):
                    return k
            return _MISSING
        for k in dict.keys(self):
            if bool(k == key):
                return k
        return _MISSING

    def __getitem__(self, key):
        k = self._find(key)
        if k is _MISSING:
            raise KeyError(key)
        return dict.__getitem__(self, k)

    def __setitem__(self, key, value):
        k = self._find(key)
        dict.__setitem__(self, key if k is _MISSING else k, value)

    def __contains__(self, key):
        return self._find(key) is not _MISSING

    def get(self, key, default=None):
        k = self._find(key)
        return default if k is _MISSING else dict.__getitem__(self, k)

    def setdefault(self, key, default=None):
        k = self._find(key)
        if k is _MISSING:
            dict.__setitem__(self, key, default)
            return default
        return dict.__getitem__(self, k)

    def pop(self, key, *default):
        k = self._find(key)
        if k is _MISSING:
            if default:
                return default[0]
            raise KeyError(key)
        return dict.pop(self, k)


_MISSING = object()


def sym_dict(d):
    return SymDict(d)


_counter = [0]


def load(path, shadows="fork", extra=None):
    """Compile the file at `path` (current content) into a fresh module and return it."""
    with open(path) as fh:
        src = fh.read()
    tree = ast.parse(src, path)
    tree = ast.fix_missing_locations(_Rewriter().visit(tree))
    _counter[0] += 1
    name = "symx_mod_%d_%s" % (_counter[0], path.rsplit("/", 1)[-1][:-3])
    mod = types.ModuleType(name)
    mod.__file__ = path
    d = mod.__dict__
    d["__symx_join__"] = sbytes.sym_join
    d["__symx_isinstance__"] = core.sym_isinstance
    d["__symx_dict__"] = sym_dict
    if shadows:
        d["min"] = core.fork_min if shadows == "fork" else core.sym_min
        d["max"] = core.fork_max if shadows == "fork" else core.sym_max
        d["range"] = core.sym_range
    if extra:
        d.update(extra)
    sys.modules[name] = mod
    exec(compile(tree, path, "exec"), d)
    mod.__symx_source__ = src
    return mod


def repo_path(rel):
    return f"{REPO}/{rel}"


def identity_lru_cache(maxsize=128, typed=False):
    """Stand-in for functools.lru_cache: a correct memoiser is unobservable, so it is elided."""
    if callable(maxsize):
        return maxsize
    return lambda f: f


class Coverage:
    """Line coverage of the loaded modules via sys.monitoring (cheap; LINE events for selected files only)."""

    TOOL = 3

    def __init__(self, files):
        self.files = set(files)
        self.lines = set()
        self.funcs = set()
        self._on = False

    def start(self):
        mon = sys.monitoring
        try:
            mon.use_tool_id(self.TOOL, "symx-cov")
        except ValueError:
            pass
        mon.register_callback(self.TOOL, mon.events.LINE, self._line)
        mon.register_callback(self.TOOL, mon.events.PY_START, self._start)
        mon.set_events(self.TOOL, mon.events.LINE | mon.events.PY_START)
        self._on = True

    def _start(self, code, offset):
        if code.co_filename in self.files:
            self.funcs.add(f"{code.co_filename.rsplit('/', 1)[-1]}:{code.co_qualname}")
            return None
        return sys.monitoring.DISABLE

    def _line(self, code, line):
        if code.co_filename in self.files:
            self.lines.add((code.co_filename, line))
        return sys.monitoring.DISABLE

    def stop(self):
        if self._on:
            mon = sys.monitoring
            mon.set_events(self.TOOL, 0)
            mon.register_callback(self.TOOL, mon.events.LINE, None)
            mon.register_callback(self.TOOL, mon.events.PY_START, None)
            mon.free_tool_id(self.TOOL)
            self._on = False

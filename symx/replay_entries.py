"""Openers for replays: construct the real objects from concrete images."""
from __future__ import annotations

from symx.files import SparseFile


def mkfile(d, name=None):
    patches = {int(a): bytes.fromhex(h) for a, h in d.get("patches", [])}
    return SparseFile(int(d["size"]), patches, seed=int(d.get("seed", 0)), name=name, ascii=bool(d.get("ascii")))


class RawStream:
    """A parent/extent presenting an opaque byte array."""

    def __init__(self, f, sector_size=512):
        self.f = f
        self.sector_size = sector_size
        self.size = f._size

    def read_sectors(self, sector, count):
        self.f.seek(sector * self.sector_size)
        return self.f.read(count * self.sector_size)

    def _read(self, offset, length):
        self.f.seek(offset)
        return self.f.read(length)

    def seek(self, off, whence=0):
        return self.f.seek(off, whence)

    def read(self, n=-1):
        return self.f.read(n)

    def tell(self):
        return self.f.tell()


# ---- openers: build the real object for an entry -----------------------------------------------------------

def open_vhdx_new(files, opaque, p):
    from dissect.hypervisor.disk import vhdx
    from dissect.util.stream import AlignedStream

    obj = vhdx.VHDX.__new__(vhdx.VHDX)
    obj.fh = files["img"]
    obj.size = p["size"]
    obj.block_size, obj.sector_size = p["block_size"], p["sector_size"]
    obj._sectors_per_block = obj.block_size // obj.sector_size
    obj._chunk_ratio = ((2 ** 23) * obj.sector_size) // obj.block_size
    obj.has_parent = bool(p.get("has_parent"))
    obj.parent = RawStream(opaque["parent"], obj.sector_size) if obj.has_parent else None
    obj.bat = vhdx.BlockAllocationTable(obj, p["bat_offset"])
    AlignedStream.__init__(obj, obj.size)
    return obj


OPENERS = {}


def register(name):
    def deco(f):
        OPENERS[name] = f
        return f
    return deco


register("vhdx_new")(open_vhdx_new)




@register("vdi")
def open_vdi(files, opaque, p):
    from dissect.hypervisor.disk.vdi import VDI

    parent = RawStream(opaque["parent"]) if p.get("has_parent") else None
    return VDI(files["img"], parent)


@register("vhd")
def open_vhd(files, opaque, p):
    from dissect.hypervisor.disk.vhd import VHD

    return VHD(files["img"])


@register("hds")
def open_hds(files, opaque, p):
    from dissect.hypervisor.disk.hdd import HDS

    parent = opaque["parent"] if p.get("has_parent") else None
    return HDS(files["img"], parent)


@register("qcow2")
def open_qcow2(files, opaque, p):
    from dissect.hypervisor.disk import qcow2

    kw = {}
    if p.get("data_file"):
        kw["data_file"] = files["data"]
    if p.get("backing") == "file":
        kw["backing_file"] = opaque["backing"]
    elif p.get("backing") == "allow_no":
        kw["backing_file"] = qcow2.ALLOW_NO_BACKING_FILE
    return qcow2.QCow2(files["img"], **kw)


class _RangeProbe:
    def __init__(self, data_file):
        self.data_file = data_file

    def range(self, entry, bitmap, sc_from):
        import types

        from dissect.hypervisor.disk import qcow2

        q = types.SimpleNamespace(has_subclusters=True, has_data_file=self.data_file, subclusters_per_cluster=32)
        t, c = qcow2.get_subcluster_range_type(q, entry, bitmap, sc_from)
        return t, c


@register("qcow2_subcluster_range")
def open_qcow2_range(files, opaque, p):
    return _RangeProbe(bool(p.get("data_file")))


@register("vmdk_sparse")
def open_vmdk_sparse(files, opaque, p):
    from dissect.hypervisor.disk import vmdk

    parent = RawStream(opaque["parent"]) if p.get("has_parent") else None
    if p.get("via") == "disk":
        so = int(p.get("sector_offset", 0))
        return vmdk.SparseDisk(files["img"], parent=parent, offset=so * 512, sector_offset=so)
    obj = vmdk.VMDK(files["img"])
    if parent is not None:
        obj.disks[0].parent = parent
    return obj


class _PartialRunsProbe:
    def partial_runs(self, hexdata, start, length):
        from dissect.hypervisor.disk.vhdx import _iter_partial_runs

        return list(_iter_partial_runs(bytes.fromhex(hexdata), start, length))


@register("vhdx_partial_runs")
def open_partial_runs(files, opaque, p):
    return _PartialRunsProbe()


@register("vmdk_header")
def open_vmdk_header(files, opaque, p):
    from dissect.hypervisor.disk.vmdk import SparseExtentHeader

    return SparseExtentHeader(files["img"])


@register("hyperv")
def open_hyperv(files, opaque, p):
    from dissect.hypervisor.descriptor.hyperv import HyperVFile

    return HyperVFile(files["img"])


class _StreamProbe:
    """Concrete check of one AlignedStream operation over a back-end that returns exactly the guest bytes."""

    def __init__(self, p):
        self.p = p

    def stream_step(self):
        from dissect.util.stream import AlignedStream

        p = self.p
        size, align = p["size"], p["align"]

        def guest(a, n):
            return bytes(((x * 131) ^ (x >> 7)) & 0xFF for x in range(a, a + n))

        class S(AlignedStream):
            def _read(self, offset, length):
                if offset % align or length % align or length <= 0 or offset >= size:
                    raise AssertionError(f"back-end called outside its contract: {offset}, {length}")
                return guest(offset, max(min(length, size - offset), 0))

        if size > 1 << 24:
            raise MemoryError("replay too large")
        s = S(size, align)
        s.seek(p["pos"])
        op = p["op"]
        pos = p["pos"]
        if op in ("read", "peek"):
            n = p["n"]
            rem = max(size - pos, 0)
            exp = guest(pos, rem if n == -1 else min(n, rem))
            got = s.read(n) if op == "read" else s.peek(n)
            assert got == exp, "wrong bytes"
            assert s.tell() == (pos + len(exp) if op == "read" else pos), "wrong position"
        elif op == "readoffset":
            off, n = p["offset"], p["n"]
            rem = max(size - off, 0)
            exp = guest(off, rem if n == -1 else min(n, rem))
            assert s.readoffset(off, n) == exp, "wrong bytes"
        else:
            wh = int(op[4:])
            base = {0: 0, 1: pos, 2: size}[wh]
            exp = max(0, base + p["arg"]) if wh else p["arg"]
            assert s.seek(p["arg"], wh) == exp and s.tell() == exp, "wrong position"
        return b""


@register("aligned_stream")
def open_aligned_stream(files, opaque, p):
    return _StreamProbe(p)


def _pattern(tag, a, n):
    return bytes(((tag * 37 + x * 131) ^ (x >> 9)) & 0xFF for x in range(a, a + n))


class _AssemblyProbe:
    """Real VMDK / StorageStream over concrete stand-in extents with recognisable content."""

    def __init__(self, kind, p):
        self.kind, self.p = kind, p

    def _read(self, offset, length):
        p = self.p
        if self.kind == "vmdk":
            from dissect.hypervisor.disk import vmdk

            counts = p["counts"]
            if max(counts) * 512 > 1 << 40 or length > 1 << 24:
                raise MemoryError("replay too large")

            class Ext:
                def __init__(self, k):
                    self.k, self.parent, self.descriptor = k, None, None
                    self.sector_count, self.size = counts[k], counts[k] * 512
                    self.offset = self.sector_offset = 0

                def read_sectors(self, sector, count):
                    return _pattern(self.k, (sector - self.sector_offset) * 512, count * 512)

            obj = vmdk.VMDK.__new__(vmdk.VMDK)
            # run the real constructor with the extent classes replaced
            orig = (vmdk.SparseDisk, vmdk.RawDisk)
            vmdk.SparseDisk = vmdk.RawDisk = lambda fh, *a, **kw: Ext(fh.idx)
            try:
                from harness.assembly import _Handle

                fhs = [_Handle(b"KDMV" if k == "sparse" else b"\xeb\x3c\x90\x00", i) for i, k in enumerate(p["kinds"])]
                obj.__init__(fhs if len(fhs) > 1 else fhs[0])
            finally:
                vmdk.SparseDisk, vmdk.RawDisk = orig
            got = obj._read(offset, length)
            exp = bytearray()
            starts = [sum(counts[:k]) * 512 for k in range(len(counts))]
            total = sum(counts) * 512
            for g in range(offset, min(offset + length, total)):
                k = max(i for i, st in enumerate(starts) if st <= g)
                exp.append(_pattern(k, g - starts[k], 1)[0])
            return got, bytes(exp), obj.size == total
        from dissect.hypervisor.disk import hdd

        lens = p["lens"]
        if length > 1 << 24:
            raise MemoryError("replay too large")
        starts = [sum(lens[:k]) for k in range(len(lens))]

        class Mem:
            def __init__(self, k):
                self.k, self.pos = k, 0

            def seek(self, off, whence=0):
                self.pos = off

            def read(self, n):
                n = max(min(n, lens[self.k] * 512 - self.pos), 0)
                r = _pattern(self.k, self.pos, n)
                self.pos += n
                return r

        import types

        streams = [(types.SimpleNamespace(start=starts[k], end=starts[k] + lens[k], images=[]), Mem(k)) for k in p["order"]]
        obj = hdd.StorageStream(streams)
        got = obj._read(offset, length)
        total = sum(lens) * 512
        exp = bytearray()
        for g in range(offset, min(offset + length, total)):
            k = max(i for i, st in enumerate(starts) if st * 512 <= g)
            exp.append(_pattern(k, g - starts[k] * 512, 1)[0])
        return got, bytes(exp), obj.size == total


@register("vmdk_assembly")
def open_vmdk_assembly(files, opaque, p):
    return _AssemblyProbe("vmdk", p)


@register("storage_stream")
def open_storage_stream(files, opaque, p):
    return _AssemblyProbe("storage", p)


class _LineProbe:
    def parse_line(self, line):
        from dissect.hypervisor.disk.vmdk import DiskDescriptor

        return [e.type for e in DiskDescriptor.parse(line).extents]


@register("vmdk_descriptor_line")
def open_line(files, opaque, p):
    return _LineProbe()


class _VmtarProbe:
    def __init__(self, p):
        self.p = p

    def members(self):
        import io
        import tarfile

        from dissect.hypervisor.util import vmtar

        p = self.p
        if p["end"] > 1 << 26 or any(h["size"] > 1 << 24 for h in p["headers"]):
            raise MemoryError("replay too large")
        img = bytearray(p["end"] + 1024)
        for h in p["headers"]:
            ti = tarfile.TarInfo(f"m{h['pos']}")
            ti.size = h["size"]
            ti.type = tarfile.REGTYPE if h["type"] == "reg" else tarfile.DIRTYPE
            blk = bytearray(ti.tobuf(tarfile.USTAR_FORMAT))
            patch = bytes.fromhex(h["block"])
            blk[257:264] = patch[257:264] if patch[257:264] == b"visor  " else blk[257:264]
            blk[496:512] = patch[496:512]
            blk[148:156] = b"        "
            chk = sum(blk)
            blk[148:156] = b"%06o\0 " % chk
            img[h["pos"]: h["pos"] + 512] = blk
        tf = vmtar.VisorTarFile(fileobj=io.BytesIO(bytes(img)))
        out = []
        for t in tf.getmembers():
            od = t.offset_data
            out.append([t.offset, od, t.size])
        return out


@register("vmtar")
def open_vmtar(files, opaque, p):
    return _VmtarProbe(p)


class _PathsProbe:
    """Replays a path scenario on the real code in a temporary directory; records every open() mode."""

    def __init__(self, p, exists):
        self.p, self.exists = p, exists

    def paths(self):
        import builtins
        import os
        import pathlib
        import tempfile

        p = self.p
        modes = []
        with tempfile.TemporaryDirectory() as td:
            def real(path):
                return os.path.join(td, path.lstrip("/"))

            for e in self.exists:
                rp = real(e)
                if e.endswith((".hdd", ".pvm")):
                    os.makedirs(rp, exist_ok=True)
                    continue
                os.makedirs(os.path.dirname(rp), exist_ok=True)
                data = b"\x00" * 4096
                if p["kind"] == "hdd" and e.endswith("DiskDescriptor.xml"):
                    xml = p["xml"]
                    for f in p["files"]:
                        if f.startswith("/"):
                            xml = xml.replace(f">{f}<", f">{real(f)}<")
                    data = xml.encode()
                with open(rp, "wb") as fh:
                    fh.write(data)
            before = {}
            for root, _, fs_ in os.walk(td):
                for f in fs_:
                    fp = os.path.join(root, f)
                    before[fp] = (os.path.getsize(fp), open(fp, "rb").read())
            orig_open = pathlib.Path.open

            def rec(self_, mode="r", *a, **kw):
                modes.append((str(self_), mode))
                return orig_open(self_, mode, *a, **kw)

            pathlib.Path.open = rec
            try:
                if p["kind"] == "hdd":
                    from dissect.hypervisor.disk import hdd

                    class H:
                        def __init__(self, fh, parent=None):
                            self.fh, self.parent = fh, parent

                    orig = (hdd.HDS, hdd.StorageStream)
                    hdd.HDS = H
                    hdd.StorageStream = lambda streams: streams
                    try:
                        hdd.HDD(pathlib.Path(real("/evidence/copy.pvm/copy.hdd"))).open()
                    except (OSError, KeyError, ValueError):
                        pass
                    finally:
                        hdd.HDS, hdd.StorageStream = orig
            finally:
                pathlib.Path.open = orig_open
            changed = [fp for fp, (sz, data) in before.items() if not os.path.exists(fp) or open(fp, "rb").read() != data]
        bad = [m for m in modes if m[1] not in ("rb", "r", "rt")]
        return dict(bad_modes=bad, changed=changed)


@register("paths")
def open_paths(files, opaque, p):
    import json
    import sys

    return _PathsProbe(p, p.get("exists", []))


class _TermProbe:
    def __init__(self, kind, p, files):
        self.kind, self.p, self.files = kind, p, files

    def run(self):
        import signal

        def alarm(sig, frm):
            raise TimeoutError("did not terminate within 10 s")

        old = signal.signal(signal.SIGALRM, alarm)
        signal.alarm(10)
        try:
            if self.kind == "chain":
                import uuid

                from dissect.hypervisor.disk import hdd

                ps = self.p["parents"]
                n = len(ps)
                gs = [uuid.UUID(int=k + 1) for k in range(n)] + [hdd.NULL_GUID]
                d = hdd.Descriptor.__new__(hdd.Descriptor)
                d.snapshots = hdd.Snapshots(None, [hdd.Shot(gs[k], gs[ps[k]]) for k in range(n)])
                return len(d.get_snapshot_chain(gs[0])) <= n
            if self.kind == "walk":
                import io
                import types

                from dissect.hypervisor.descriptor import hyperv

                buf = bytearray(self.p["size"])
                for a, h in self.p["patches"]:
                    b = bytes.fromhex(h)
                    if 0 <= a < len(buf):
                        buf[a: a + len(b)] = b[: len(buf) - a]
                t = hyperv.HyperVStorageKeyTable(types.SimpleNamespace(fh=io.BytesIO(bytes(buf))), 0, self.p["size"])
                return len(t.entries) <= self.p["size"]
            if self.kind == "open":
                from dissect.hypervisor.descriptor import hyperv

                hv = hyperv.HyperVFile(self.files["img"])
                return len(hv.object_tables) <= 2
        finally:
            signal.alarm(0)
            signal.signal(signal.SIGALRM, old)


@register("snapshot_chain")
def open_chain(files, opaque, p):
    return _TermProbe("chain", p, files)


@register("hyperv_keytable")
def open_keytable(files, opaque, p):
    return _TermProbe("walk", p, files)


@register("hyperv_file")
def open_hvfile(files, opaque, p):
    return _TermProbe("open", p, files)


class _VmxProbe:
    """Builds a real encrypted VMX for the configuration (real PBKDF2 / AES-CBC / HMAC) and runs the real unlock."""

    def __init__(self, p):
        self.p = p

    def unlock(self):
        import base64
        import hashlib
        import hmac
        from urllib.parse import quote

        from Crypto.Cipher import AES

        from dissect.hypervisor.descriptor import vmx

        p = self.p
        cipher, mac, kdf, scen = p["cipher"], p["mac"], p["kdf"], p["scenario"]
        klen = {"AES-128": 16, "AES-192": 24, "AES-256": 32}[cipher]
        hname, taglen = {"HMAC-SHA-1": ("sha1", 20), "HMAC-SHA-1-128": ("sha1", 16), "HMAC-SHA-256": ("sha256", 32)}[mac]
        kh = {"PBKDF2-HMAC-SHA-1": "sha1", "PBKDF2-HMAC-SHA-256": "sha256"}[kdf]
        good, bad = "correct horse", "wrong horse"
        salt, rounds = b"0123456789abcdef", 10000
        k1 = hashlib.pbkdf2_hmac(kh, good.encode(), salt, rounds, klen)
        k2 = bytes(range(klen))

        def seal(key, iv, plain):
            padn = 16 - len(plain) % 16
            ct = AES.new(key, AES.MODE_CBC, iv=iv).encrypt(plain + bytes([padn]) * padn)
            return iv, ct, hmac.digest(key, plain, hname)[:taglen]

        n = min(p["content_length"], 1 << 16)
        content = ("a = \"1\"\n" * (n // 8 + 1))[:n].encode()
        pair_plain = f"type=key:cipher={cipher}:key={quote(base64.b64encode(k2).decode())}".encode()
        iv1, ct1, tag1 = seal(k1, b"\x11" * 16, pair_plain)
        iv2, ct2, tag2 = seal(k2, b"\x22" * 16, content)

        def flip(b, at):
            at = at % len(b)
            return b[:at] + bytes([b[at] ^ 0x5A]) + b[at + 1:]

        at = p["tamper_at"]
        if scen == "tamper_pair_ct":
            ct1 = flip(ct1, at)
        elif scen == "tamper_pair_tag":
            tag1 = flip(tag1, at)
        elif scen == "tamper_data_ct":
            ct2 = flip(ct2, at)
        elif scen == "tamper_data_tag":
            tag2 = flip(tag2, at)
        keysafe = ("vmware:key/list/(pair/(phrase/" + quote("id1", safe="") + "/" +
                   quote(f"pass2key={quote(kdf, safe='')}:cipher={quote(cipher, safe='')}:rounds={rounds}:salt="
                         f"{quote(base64.b64encode(salt).decode(), safe='')}", safe="") + "," + quote(mac, safe="") + "," +
                   quote(base64.b64encode(iv1 + ct1 + tag1).decode(), safe="") + "))")
        attr = {"encryption.keysafe": keysafe, "encryption.data": base64.b64encode(iv2 + ct2 + tag2).decode(),
                "displayname": "vm"}
        before = dict(attr)
        v = vmx.VMX(attr)
        try:
            v.unlock_with_phrase(good if scen != "wrong_pass" else bad)
        except Exception as ex:  # noqa: BLE001
            return ("raises", v.attr == before, type(ex).__name__)
        want = dict(before)
        want.update(vmx._parse_dictionary(content.decode()))
        return ("ok", v.attr == want, "")


@register("vmx_unlock")
def open_vmx(files, opaque, p):
    return _VmxProbe(p)


class _QcowMetaProbe:
    def __init__(self, files, p):
        self.files, self.p = files, p

    def meta(self):
        from dissect.hypervisor.disk import qcow2

        q = qcow2.QCow2(self.files["img"], backing_file=qcow2.ALLOW_NO_BACKING_FILE if self.p.get("backing") else None)

        def hx(v):
            if v is None:
                return None
            return (v.encode() if isinstance(v, str) else bytes(v)).hex()

        return dict(backing_format=q.backing_format, feature_table=hx(q.feature_table), image_data_file=hx(q.image_data_file),
                    unknown=[[e.magic, d.hex()] for e, d in q.unknown_extensions], auto_backing_file=hx(q.auto_backing_file))

    def snapshots(self):
        import types

        from dissect.hypervisor.disk import qcow2

        q = qcow2.QCow2.__new__(qcow2.QCow2)
        q.fh = self.files["img"]
        q.header = types.SimpleNamespace(snapshots_offset=self.p["snapshots_offset"], nb_snapshots=self.p["n"])
        return [[s.header.l1_table_offset, s.header.l1_size, s.id_str.encode().hex(), s.name.encode().hex()]
                for s in qcow2.QCow2.snapshots.func(q)]


@register("qcow2_meta")
def open_qcow2_meta(files, opaque, p):
    return _QcowMetaProbe(files, p)


@register("qcow2_snapshots")
def open_qcow2_snaps(files, opaque, p):
    return _QcowMetaProbe(files, p)


class _HvTreeProbe:
    def __init__(self, files, p):
        self.files, self.p = files, p

    def tree(self):
        from dissect.hypervisor.descriptor import hyperv

        hf = hyperv.HyperVFile(self.files["img"])
        nodes = []

        def visit(parent, d):
            for key, ent in d.items():
                val = None
                if ent.table.offset == 0x4000 and ent.type != hyperv.KeyDataType.Node:
                    try:
                        val = ent.value
                    except ValueError:
                        val = "<unknown file object>"
                    if isinstance(val, bool):
                        val = int(val)
                    if isinstance(val, (bytes, memoryview)):
                        val = bytes(val).hex()
                nodes.append([ent.table.offset, parent, key, val])
                visit(ent.table.offset, ent.children)

        visit(None, hf.root)
        return dict(first_header=hf.header is hf.headers[0], nodes=sorted(nodes, key=lambda x: x[0]))


@register("hyperv_tree")
def open_hv_tree(files, opaque, p):
    return _HvTreeProbe(files, p)


@register("envelope")
def open_envelope(files, opaque, p):
    import io

    from dissect.hypervisor.util import envelope

    f = files["img"]
    f.seek(0)
    img = bytearray(f.read(3 * 4096))
    attrs = {}
    for k, present in p["present"].items():
        if present:
            if k.endswith("cipherName"):
                attrs[k] = envelope.EnvelopeAttribute(envelope.c_envelope.AttributeType.String, 0,
                                                      "AES-256-GCM" if p["gcm"] else "AES-128-CBC")
            else:
                attrs[k] = envelope.EnvelopeAttribute(envelope.c_envelope.AttributeType.Bytes, 0, b"\x01" * 32)
    s = io.BytesIO()
    envelope._pack_attributes(s, attrs)
    blob = s.getvalue()
    img[512: 4096] = bytes(4096 - 512)
    img[512: 512 + len(blob)] = blob
    return envelope.Envelope(io.BytesIO(bytes(img)))


@register("vhdx_container")
def open_vhdx_container(files, opaque, p):
    from dissect.hypervisor.disk.vhdx import VHDX

    return VHDX(files["img"])

"""Openers for replays: construct the real objects from concrete images."""
from __future__ import annotations

from symx.files import SparseFile


def mkfile(d, name=None):
    patches = {int(a): bytes.fromhex(h) for a, h in d.get("patches", [])}
    return SparseFile(int(d["size"]), patches, seed=int(d.get("seed", 0)), name=name)


class RawStream:
    """A parent/extent presenting an opaque byte array."""

    def __init__(self, f, sector_size=512):
        self.f = f
        self.sector_size = sector_size
        self.size = f._size

    def read_sectors(self, sector, count):
        self.f.seek(sector * self.sector_size)
        return self.f.read(count * self.sector_size)

    def _read(self, offset, length):
        self.f.seek(offset)
        return self.f.read(length)

    def seek(self, off, whence=0):
        return self.f.seek(off, whence)

    def read(self, n=-1):
        return self.f.read(n)

    def tell(self):
        return self.f.tell()


# ---- openers: build the real object for an entry -----------------------------------------------------------

def open_vhdx_new(files, opaque, p):
    from dissect.hypervisor.disk import vhdx
    from dissect.util.stream import AlignedStream

    obj = vhdx.VHDX.__new__(vhdx.VHDX)
    obj.fh = files["img"]
    obj.size = p["size"]
    obj.block_size, obj.sector_size = p["block_size"], p["sector_size"]
    obj._sectors_per_block = obj.block_size // obj.sector_size
    obj._chunk_ratio = ((2 ** 23) * obj.sector_size) // obj.block_size
    obj.has_parent = bool(p.get("has_parent"))
    obj.parent = RawStream(opaque["parent"], obj.sector_size) if obj.has_parent else None
    obj.bat = vhdx.BlockAllocationTable(obj, p["bat_offset"])
    AlignedStream.__init__(obj, obj.size)
    return obj


OPENERS = {}


def register(name):
    def deco(f):
        OPENERS[name] = f
        return f
    return deco


register("vhdx_new")(open_vhdx_new)




@register("vdi")
def open_vdi(files, opaque, p):
    from dissect.hypervisor.disk.vdi import VDI

    parent = RawStream(opaque["parent"]) if p.get("has_parent") else None
    return VDI(files["img"], parent)


@register("vhd")
def open_vhd(files, opaque, p):
    from dissect.hypervisor.disk.vhd import VHD

    return VHD(files["img"])


@register("hds")
def open_hds(files, opaque, p):
    from dissect.hypervisor.disk.hdd import HDS

    parent = opaque["parent"] if p.get("has_parent") else None
    return HDS(files["img"], parent)


@register("qcow2")
def open_qcow2(files, opaque, p):
    from dissect.hypervisor.disk import qcow2

    kw = {}
    if p.get("data_file"):
        kw["data_file"] = files["data"]
    if p.get("backing") == "file":
        kw["backing_file"] = opaque["backing"]
    elif p.get("backing") == "allow_no":
        kw["backing_file"] = qcow2.ALLOW_NO_BACKING_FILE
    return qcow2.QCow2(files["img"], **kw)


class _RangeProbe:
    def __init__(self, data_file):
        self.data_file = data_file

    def range(self, entry, bitmap, sc_from):
        import types

        from dissect.hypervisor.disk import qcow2

        q = types.SimpleNamespace(has_subclusters=True, has_data_file=self.data_file, subclusters_per_cluster=32)
        t, c = qcow2.get_subcluster_range_type(q, entry, bitmap, sc_from)
        return t, c


@register("qcow2_subcluster_range")
def open_qcow2_range(files, opaque, p):
    return _RangeProbe(bool(p.get("data_file")))


@register("vmdk_sparse")
def open_vmdk_sparse(files, opaque, p):
    from dissect.hypervisor.disk import vmdk

    parent = RawStream(opaque["parent"]) if p.get("has_parent") else None
    if p.get("via") == "disk":
        so = int(p.get("sector_offset", 0))
        return vmdk.SparseDisk(files["img"], parent=parent, offset=so * 512, sector_offset=so)
    obj = vmdk.VMDK(files["img"])
    if parent is not None:
        obj.disks[0].parent = parent
    return obj


class _PartialRunsProbe:
    def partial_runs(self, hexdata, start, length):
        from dissect.hypervisor.disk.vhdx import _iter_partial_runs

        return list(_iter_partial_runs(bytes.fromhex(hexdata), start, length))


@register("vhdx_partial_runs")
def open_partial_runs(files, opaque, p):
    return _PartialRunsProbe()


@register("vmdk_header")
def open_vmdk_header(files, opaque, p):
    from dissect.hypervisor.disk.vmdk import SparseExtentHeader

    return SparseExtentHeader(files["img"])


@register("hyperv")
def open_hyperv(files, opaque, p):
    from dissect.hypervisor.descriptor.hyperv import HyperVFile

    return HyperVFile(files["img"])


class _StreamProbe:
    """Concrete check of one AlignedStream operation over a back-end that returns exactly the guest bytes."""

    def __init__(self, p):
        self.p = p

    def stream_step(self):
        from dissect.util.stream import AlignedStream

        p = self.p
        size, align = p["size"], p["align"]

        def guest(a, n):
            return bytes(((x * 131) ^ (x >> 7)) & 0xFF for x in range(a, a + n))

        class S(AlignedStream):
            def _read(self, offset, length):
                if offset % align or length % align or length <= 0 or offset >= size:
                    raise AssertionError(f"back-end called outside its contract: {offset}, {length}")
                return guest(offset, max(min(length, size - offset), 0))

        if size > 1 << 24:
            raise MemoryError("replay too large")
        s = S(size, align)
        s.seek(p["pos"])
        op = p["op"]
        pos = p["pos"]
        if op in ("read", "peek"):
            n = p["n"]
            rem = max(size - pos, 0)
            exp = guest(pos, rem if n == -1 else min(n, rem))
            got = s.read(n) if op == "read" else s.peek(n)
            assert got == exp, "wrong bytes"
            assert s.tell() == (pos + len(exp) if op == "read" else pos), "wrong position"
        elif op == "readoffset":
            off, n = p["offset"], p["n"]
            rem = max(size - off, 0)
            exp = guest(off, rem if n == -1 else min(n, rem))
            assert s.readoffset(off, n) == exp, "wrong bytes"
        else:
            wh = int(op[4:])
            base = {0: 0, 1: pos, 2: size}[wh]
            exp = max(0, base + p["arg"]) if wh else p["arg"]
            assert s.seek(p["arg"], wh) == exp and s.tell() == exp, "wrong position"
        return b""


@register("aligned_stream")
def open_aligned_stream(files, opaque, p):
    return _StreamProbe(p)

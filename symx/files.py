"""Symbolic files: content is a family of uninterpreted functions per file.

  B_f(addr)            -> 8-bit byte
  W_f_{le|be}{n}(addr) -> n-byte word at addr   (linked to B_f by a definitional axiom when addr is concrete)
  O_name(addr)         -> byte of an opaque byte array (parent image, guest content, extent k)
  INF_f_w(off,len,max,i) -> byte i of inflating file range [off, off+len) with window bits w and output cap max

Both encodings (BV exact / Int steering) get their own function symbols.
"""
from __future__ import annotations

import io

import z3

from symx import core
from symx.core import S, SymInt, Unsupported, bvval, eng, mk, parts, sym_max, sym_min
from symx.sbytes import Seg, SymBytes

_ufs = {}


def _uf(name, nargs, out_bits):
    k = (name, S.W)
    if k not in _ufs:
        bvs = z3.BitVecSort(S.W)
        f = z3.Function(name, *([bvs] * nargs), z3.BitVecSort(out_bits))
        g = z3.Function(name + "!i", *([z3.IntSort()] * nargs), z3.IntSort())
        _ufs[k] = (f, g)
    return _ufs[k]


def byte_uf(fname):
    return _uf(f"B_{fname}", 1, 8)


def word_uf(fname, nbytes, endian):
    return _uf(f"W_{fname}_{endian}{nbytes * 8}", 1, nbytes * 8)


def opaque_uf(name):
    return _uf(f"O_{name}", 1, 8)


def _record(kind, fname, nbytes, endian, addr, value_bv):
    e = eng()
    apps = getattr(e, "apps", None)
    if apps is not None:
        pa = parts(addr)
        apps.append((kind, fname, nbytes, endian, pa[0], value_bv, pa[1]))


def _ext(term, bits, signed):
    if bits == S.W:
        return term
    if bits > S.W:
        raise Unsupported("word wider than the encoding")
    return z3.SignExt(S.W - bits, term) if signed else z3.ZeroExt(S.W - bits, term)


def _link(en, fname, addr, nbytes, endian):
    """Definitional axiom W(addr) = concat(B(addr+k)) for a word at a concrete address (added lazily, only when
    the same bytes are also observed through another view)."""
    key = (fname, addr, nbytes, endian)
    if key in en.linked:
        return
    en.linked.add(key)
    f, g = word_uf(fname, nbytes, endian)
    e, ei = f(bvval(addr)), g(z3.IntVal(addr))
    bf, bg = byte_uf(fname)
    order = range(nbytes) if endian == "le" else range(nbytes - 1, -1, -1)
    bs = [bf(bvval(addr + k)) for k in order]  # least significant first
    cat = z3.Concat(*reversed(bs))
    isum = sum(bg(z3.IntVal(addr + k)) * (256 ** n) for n, k in enumerate(order))
    for k in range(nbytes):
        bi = bg(z3.IntVal(addr + k))
        en._add_int(z3.And(bi >= 0, bi <= 255))
    bits = 8 * nbytes
    uns = z3.If(ei < 0, ei + (1 << bits), ei)
    en.assume_raw(e == cat, uns == isum)


def _note_concrete(en, fname, addr, nbytes, endian):
    """Track concrete-address views of a file and link overlapping ones."""
    views = getattr(en, "views", None)
    if views is None or not hasattr(en, "linked"):
        return
    mine = (addr, nbytes, endian)
    fv = views.setdefault(fname, [])
    if mine in fv:
        return
    for (a2, n2, e2) in fv:
        if a2 < addr + nbytes and addr < a2 + n2:
            # overlapping, different view: express both through bytes
            if nbytes > 1:
                _link(en, fname, addr, nbytes, endian)
            if n2 > 1:
                _link(en, fname, a2, n2, e2)
    fv.append(mine)


def _link_sym(en, fname, addr, nbytes, endian):
    """_link for a word at a symbolic address"""
    ab, ai, _, _ = parts(addr)
    key = (fname, ab.get_id(), nbytes, endian)
    if key in en.linked:
        return
    en.linked.add(key)
    f, g = word_uf(fname, nbytes, endian)
    e, ei = f(ab), g(ai)
    bf, bg = byte_uf(fname)
    order = range(nbytes) if endian == "le" else range(nbytes - 1, -1, -1)
    cat = z3.Concat(*reversed([bf(ab + bvval(k)) for k in order]))
    isum = sum(bg(ai + k) * (256 ** n) for n, k in enumerate(order))
    for k in range(nbytes):
        bi = bg(ai + k)
        en._add_int(z3.And(bi >= 0, bi <= 255))
    bits = 8 * nbytes
    uns = z3.If(ei < 0, ei + (1 << bits), ei)
    en.assume_raw(e == cat, uns == isum)


def _note_symbolic(en, fname, addr, nbytes, endian):
    """Opt-in (engine.link_symbolic): views at symbolic addresses that differ by a constant and overlap are linked
    through the byte view, so a model assigns them consistent content."""
    if not getattr(en, "link_symbolic", False) or not hasattr(en, "linked"):
        return
    sv = en.__dict__.setdefault("symviews", {}).setdefault(fname, [])
    ab = parts(addr)[0]
    for (a2, addr2, n2, e2) in sv:
        if a2.get_id() == ab.get_id() and n2 == nbytes and e2 == endian:
            return
    for (a2, addr2, n2, e2) in sv:
        d = z3.simplify(ab - a2)
        if not z3.is_bv_value(d):
            continue
        d = d.as_signed_long()
        if -nbytes < d < n2 and not (d == 0 and n2 == nbytes and e2 == endian):
            if nbytes > 1:
                _link_sym(en, fname, addr, nbytes, endian)
            if n2 > 1:
                _link_sym(en, fname, addr2, n2, e2)
    sv.append((ab, addr, nbytes, endian))


def byte_at(fname, addr):
    f, g = byte_uf(fname)
    ab, ai, _, _ = parts(addr)
    e, ei = f(ab), g(ai)
    en = eng()
    en._add_int(z3.And(ei >= 0, ei <= 255))
    _record("B", fname, 1, "le", addr, e)
    if isinstance(addr, int):
        _note_concrete(en, fname, addr, 1, "le")
    else:
        _note_symbolic(en, fname, addr, 1, "le")
    return SymInt(_ext(e, 8, False), ei, 0, 255)


def opaque_byte(name, addr):
    f, g = opaque_uf(name)
    ab, ai, _, _ = parts(addr)
    e, ei = f(ab), g(ai)
    eng()._add_int(z3.And(ei >= 0, ei <= 255))
    return SymInt(_ext(e, 8, False), ei, 0, 255)


def word_at(fname, addr, nbytes, endian, signed=False):
    """n-byte word of file fname at addr as a SymInt"""
    if nbytes == 1:
        b = byte_at(fname, addr)
        if signed:
            return core.ite(b >= 128, b - 256, b)
        return b
    f, g = word_uf(fname, nbytes, endian)
    ab, ai, _, _ = parts(addr)
    e, ei = f(ab), g(ai)
    bits = 8 * nbytes
    if signed:
        lo, hi = -(1 << (bits - 1)), (1 << (bits - 1)) - 1
    else:
        lo, hi = 0, (1 << bits) - 1
    en = eng()
    if signed:
        # the Int-side function symbol always denotes the unsigned word
        en._add_int(z3.And(ei >= 0, ei <= (1 << bits) - 1))
        ei = z3.If(ei >= (1 << (bits - 1)), ei - (1 << bits), ei)
    else:
        en._add_int(z3.And(ei >= lo, ei <= hi))
    _record("W", fname, nbytes, endian, addr, e)
    if isinstance(addr, int):
        _note_concrete(en, fname, addr, nbytes, endian)
    else:
        _note_symbolic(en, fname, addr, nbytes, endian)
    full = _ext(e, bits, signed)
    bounds = getattr(en, "bounds", None)
    b = None
    if bounds:
        b = bounds.get(full.get_id())
        if b is None and not isinstance(addr, int):
            # the same location may be spelled differently (fsize - 1024 vs fsize + (-1024)): compare simplified
            sf = z3.simplify(full)
            for (t, lo_, hi_) in list(bounds.values()):
                if z3.simplify(t).eq(sf):
                    b = (full, lo_, hi_)
                    bounds[full.get_id()] = b
                    break
    if b is not None:
        lo, hi = b[1], b[2]
        if lo == hi:
            return lo
    return SymInt(full, ei, lo, hi)


def _infl_uf(fname, wbits):
    return _uf(f"INF_{fname}_{wbits}".replace("-", "m"), 3, 8)


def infl_term(key, idx_bv):
    fname, off, ln, wbits, maxlen = key
    f, _ = _infl_uf(fname, wbits)
    return f(parts(off)[0], parts(ln)[0], idx_bv)


def infl_byte(key, idx):
    """byte idx of inflating file range [off, off+ln) with window bits wbits. The output cap is not part of the
    identity: a well-formed stream inflates to the same bytes whatever cap (>= its length) the caller passes."""
    fname, off, ln, wbits, maxlen = key
    f, g = _infl_uf(fname, wbits)
    e = f(parts(off)[0], parts(ln)[0], parts(idx)[0])
    ei = g(parts(off)[1], parts(ln)[1], parts(idx)[1])
    eng()._add_int(z3.And(ei >= 0, ei <= 255))
    return SymInt(_ext(e, 8, False), ei, 0, 255)


class MonitorViolation(Exception):
    """A handle or path was used in a way that could modify evidence (C09)."""


class SymFile:
    """Immutable symbolic file: seek/read/tell only.

    size: None (unbounded, every read is in range), or int/SymInt. eof=True makes reads past the end short.
    """

    _ALLOWED = {"seek", "read", "tell", "name", "readinto", "closed", "close", "seekable", "readable",
                "__enter__", "__exit__", "fileno_absent"}

    def __init__(self, name, size=None, eof=False, label=None):
        self.name = label  # what the code under test sees as fh.name
        self.fname = name
        self.pos = 0
        self.size = size
        self.eof = eof
        self.reads = []
        self.violations = []

    def seek(self, off, whence=0):
        if isinstance(whence, SymInt):
            raise Unsupported("symbolic whence")
        if whence == 0:
            if off < 0:
                raise OSError(22, "Invalid argument")
            self.pos = off
        elif whence == 1:
            np = self.pos + off
            if np < 0:
                raise OSError(22, "Invalid argument")
            self.pos = np
        elif whence == 2:
            if self.size is None:
                raise Unsupported("SEEK_END on a file without a size")
            np = self.size + off
            if np < 0:
                raise OSError(22, "Invalid argument")
            self.pos = np
        else:
            raise ValueError("invalid whence")
        return self.pos

    def tell(self):
        return self.pos

    def read(self, n=-1):
        if n is None or (n < 0):
            if self.size is None:
                raise Unsupported("read to EOF on a file without a size")
            ln = sym_max(self.size - self.pos, 0)
        elif self.eof:
            if self.size is None:
                raise Unsupported("eof mode needs a size")
            ln = sym_max(sym_min(n, self.size - self.pos), 0)
        else:
            ln = n
        self.reads.append((self.pos, ln))
        r = SymBytes([Seg("file", self.fname, self.pos, ln)])
        self.pos = self.pos + ln
        return r

    def readinto(self, b):
        raise Unsupported("readinto on a symbolic file")

    def close(self):
        pass

    closed = False

    def readable(self):
        return True

    def seekable(self):
        return True

    def __enter__(self):
        return self

    def __exit__(self, *a):
        return False

    def __getattr__(self, k):
        if k.startswith("__") and k.endswith("__"):
            raise AttributeError(k)
        v = MonitorViolation(f"handle {self.fname!r}: forbidden attribute {k!r}")
        self.violations.append(v)
        mon = getattr(eng(), "monitor", None)
        if mon is not None:
            mon.append(str(v))
        raise v


class SymTable:
    """An array of n fixed-width integers read from a file: item i is the word UF at base + width*i."""

    def __init__(self, fname, base, n, nbytes, endian, signed=False):
        self.fname, self.base, self.n = fname, base, n
        self.nbytes, self.endian, self.signed = nbytes, endian, signed

    def __bool__(self):
        return bool(self.n > 0)

    def __len__(self):
        n = self.n
        return n.__index__() if isinstance(n, SymInt) else n

    def __getitem__(self, i):
        if isinstance(i, slice):
            raise Unsupported("slice of a symbolic table")
        if i < 0:
            i = i + self.n
            if i < 0:
                raise IndexError("list index out of range")
        if i >= self.n:
            raise IndexError("list index out of range")
        return word_at(self.fname, self.base + i * self.nbytes, self.nbytes, self.endian, self.signed)

    def __iter__(self):
        i = 0
        while i < self.n:
            yield self[i]
            i += 1


def read_table(src, n, nbytes, endian, signed=False):
    """Stand-in for c_x.uintN[n](fh) / array.frombytes: consume n*nbytes from a SymFile or take them from SymBytes."""
    if isinstance(src, SymFile):
        if n < 0:
            raise Unsupported("negative table length")
        want = n * nbytes
        base = src.pos
        data = src.read(want)
        got = data.length()
        if src.eof and not (got >= want):
            raise EOFError(f"Read {got} bytes, but expected {want}")
        return SymTable(src.fname, base, n, nbytes, endian, signed)
    b = SymBytes.lift(src)
    if len(b.segs) == 1 and b.segs[0].kind == "file":
        s = b.segs[0]
        if not (s.length >= n * nbytes):
            raise EOFError("short table")
        return SymTable(s.src, s.start, n, nbytes, endian, signed)
    raise Unsupported("table over non-file bytes")


def bytes_word(b: SymBytes, off, nbytes, endian, signed=False):
    """Integer stored in bytes b at index off. Uses the word UF when the bytes come straight from a file."""
    b = SymBytes.lift(b)
    n = b.length()
    if not (n >= off + nbytes):
        raise EOFError(f"Read {n} bytes, but expected {off + nbytes}")
    if len(b.segs) >= 1 and b.segs[0].kind == "file" and (b.segs[0].length >= off + nbytes) is True:
        s = b.segs[0]
        return word_at(s.src, s.start + off, nbytes, endian, signed)
    if len(b.segs) >= 1 and b.segs[0].kind == "file" and len(b.segs) == 1:
        s = b.segs[0]
        return word_at(s.src, s.start + off, nbytes, endian, signed)
    # generic: assemble from bytes
    val = 0
    order = range(nbytes) if endian == "le" else range(nbytes - 1, -1, -1)
    for k, idx in enumerate(order):
        val = val + b.byte(off + idx) * (256 ** k)
    if signed:
        bits = 8 * nbytes
        val = core.ite(val >= (1 << (bits - 1)), val - (1 << bits), val) if isinstance(val, SymInt) else (
            val - (1 << bits) if val >= (1 << (bits - 1)) else val)
    return val


class SparseFile(io.RawIOBase):
    """Concrete sparse in-memory file for witnesses and replays: explicit byte patches over a
    deterministic position-dependent filler. Read-only; counts bytes read."""

    _ASCII = bytes(0x21 + (i % 94) for i in range(256))

    def __init__(self, size, patches=None, seed=0, name=None, ascii=False):
        super().__init__()
        self._ascii = ascii
        self._size = size
        self._patches = sorted((a, bytes(b)) for a, b in (patches or {}).items())
        self._pos = 0
        self._seed = seed
        self.bytes_read = 0
        self.read_calls = 0
        if name is not None:
            self.name = name

    def readable(self):
        return True

    def seekable(self):
        return True

    def writable(self):
        return False

    def seek(self, off, whence=0):
        if whence == 0:
            np = off
        elif whence == 1:
            np = self._pos + off
        elif whence == 2:
            np = self._size + off
        else:
            raise ValueError("whence")
        if np < 0:
            raise OSError(22, "Invalid argument")
        self._pos = np
        return np

    def tell(self):
        return self._pos

    _PERIOD = 1048583  # 2**20 + 7: not a multiple of any natural alignment
    _pattern = {}

    def filler(self, start, n):
        """Deterministic position-dependent content: a long pseudo-random pattern repeated with an odd period."""
        import hashlib

        if n <= 0:
            return b""
        pat = SparseFile._pattern.get(self._seed)
        if pat is None:
            out = bytearray()
            seed = self._seed.to_bytes(8, "little")
            i = 0
            while len(out) < self._PERIOD:
                out += hashlib.sha512(seed + i.to_bytes(8, "little")).digest()
                i += 1
            pat = bytes(out[: self._PERIOD])
            SparseFile._pattern[self._seed] = pat
        P = self._PERIOD
        o = start % P
        if o + n <= P:
            return pat[o: o + n]
        head = pat[o:]
        rest = n - len(head)
        return head + pat * (rest // P) + pat[: rest % P]

    def read(self, n=-1):
        if n is None or n < 0:
            n = max(self._size - self._pos, 0)
        n = max(min(n, self._size - self._pos), 0)
        if n > (1 << 31):
            raise MemoryError("replay read too large")
        start = self._pos
        buf = bytearray(self.filler(start, n))
        if self._ascii:
            buf = bytearray(bytes(buf).translate(self._ASCII))  # unpatched bytes are printable (decodable text)
        for a, b in self._patches:
            if a >= start + n:
                break
            if a + len(b) <= start:
                continue
            lo = max(a, start)
            hi = min(a + len(b), start + n)
            buf[lo - start: hi - start] = b[lo - a: hi - a]
        self._pos += n
        self.bytes_read += n
        self.read_calls += 1
        return bytes(buf)

    def readinto(self, b):
        data = self.read(len(b))
        b[: len(data)] = data
        return len(data)

"""Stand-ins for C-level modules used by the code under test (struct, ctypes, zlib)."""
from __future__ import annotations

import re
import struct as _struct

import z3

from symx import core, files
from symx.core import SymInt, Unsupported, mk, parts, bvval
from symx.sbytes import Seg, SymBytes

_CODES = {"b": (1, True), "B": (1, False), "h": (2, True), "H": (2, False), "i": (4, True), "I": (4, False),
          "l": (4, True), "L": (4, False), "q": (8, True), "Q": (8, False)}


def _parse(fmt):
    endian = "le"
    if fmt and fmt[0] in "<>=!@":
        endian = "be" if fmt[0] in ">!" else "le"
        fmt = fmt[1:]
    items = []
    for cnt, code in re.findall(r"(\d*)([a-zA-Z?])", fmt):
        n = int(cnt) if cnt else 1
        if code == "x":
            items.append(("pad", n))
        elif code == "s":
            items.append(("bytes", n))
        elif code == "d":
            items.extend([("double", 8)] * n)
        elif code in _CODES:
            items.extend([("int",) + _CODES[code]] * n)
        else:
            raise Unsupported(f"struct format code {code}")
    return endian, items


class SymDouble:
    """An IEEE double whose bits come from the file: compared structurally (bytes identity)."""

    def __init__(self, data):
        self.data = data

    def __hash__(self):
        return 0


class StructStub:
    def __init__(self, fmt):
        self.format = fmt
        self.endian, self.items = _parse(fmt)
        self.size = _struct.calcsize(fmt if fmt[0] in "<>=!" else "=" + fmt)

    def unpack(self, buf):
        if isinstance(buf, (bytes, bytearray)):
            return _struct.unpack(self.format, buf)
        b = SymBytes.lift(buf)
        n = b.length()
        if not (n == self.size):
            raise _struct.error(f"unpack requires a buffer of {self.size} bytes")
        out = []
        off = 0
        for it in self.items:
            if it[0] == "pad":
                off += it[1]
            elif it[0] == "bytes":
                out.append(b[off: off + it[1]])
                off += it[1]
            elif it[0] == "double":
                out.append(SymDouble(b[off: off + 8]))
                off += 8
            else:
                _, nb, signed = it
                out.append(files.bytes_word(b, off, nb, self.endian, signed))
                off += nb
        return tuple(out)

    def unpack_from(self, buf, offset=0):
        b = SymBytes.lift(buf)
        return self.unpack(b[offset: offset + self.size])


class StructModule:
    error = _struct.error
    Struct = StructStub

    @staticmethod
    def unpack(fmt, buf):
        return StructStub(fmt).unpack(buf)

    @staticmethod
    def unpack_from(fmt, buf, offset=0):
        return StructStub(fmt).unpack_from(buf, offset)

    @staticmethod
    def calcsize(fmt):
        return _struct.calcsize(fmt)

    @staticmethod
    def pack(fmt, *a):
        return _struct.pack(fmt, *a)


class CtypesStub:
    class c_int64:
        def __init__(self, x):
            if isinstance(x, SymInt):
                xb, xi, lo, hi = parts(x)
                if lo < 0 or hi >= (1 << 64):
                    raise Unsupported("c_int64 of a value outside [0, 2^64)")
                self.value = mk(z3.If(xb >= bvval(1 << 63), xb - bvval(1 << 64), xb),
                                z3.If(xi >= (1 << 63), xi - (1 << 64), xi), -(1 << 63), (1 << 63) - 1)
            else:
                import ctypes

                self.value = ctypes.c_int64(x).value


class ZlibStub:
    """zlib with symbolic input: the output is an 'infl' segment keyed by the input range, window bits and cap.

    out_len: callable(key, max_length) -> int/SymInt: how long the output is. The read-correctness harnesses
    assume well-formed streams that inflate to exactly one allocation unit; the fault-mode harness lets the
    length be any value the cap allows."""

    error = Exception

    def __init__(self, out_len, log=None, lenient=False):
        self.out_len = out_len
        self.log = log if log is not None else []
        self.lenient = lenient  # fault mode: any byte string may be handed to the decompressor

    def _inflate(self, buf, wbits, max_length):
        if isinstance(buf, (bytes, bytearray)):
            import zlib

            d = zlib.decompressobj(wbits)
            return d.decompress(buf, max_length or 0)
        b = SymBytes.lift(buf).coalesced()
        if len(b.segs) != 1 or b.segs[0].kind != "file":
            if not core.eng().feasible():
                raise core.PathAbort("infeasible path reached the decompressor")
            if not self.lenient:
                raise Unsupported("inflate of non-contiguous input")
            first = b.segs[0] if b.segs else Seg("zero", None, 0, 0)
            key = (str(first.src or "mixed"), first.start, b.length(), wbits, max_length if max_length else 0)
            self.log.append(key)
            return SymBytes([Seg("opaque", "inflated", 0, self.out_len(key, max_length))])
        s = b.segs[0]
        key = (s.src, s.start, s.length, wbits, max_length if max_length else 0)
        self.log.append(key)
        n = self.out_len(key, max_length)
        return SymBytes([Seg("infl", key, 0, n)])

    def decompressobj(self, wbits=15):
        outer = self

        class D:
            def decompress(self, buf, max_length=0):
                return outer._inflate(buf, wbits, max_length)

        return D()

    def decompress(self, buf, wbits=15, bufsize=16384):
        return self._inflate(buf, wbits, 0)


class EnumStub:
    """Stand-in for an (Int)Enum class: calling it with a symbolic value case-splits over the declared members
    (and raises ValueError for anything else, as the real constructor does); members pass through."""

    def __init__(self, real, strict=True):
        object.__setattr__(self, "_real", real)
        object.__setattr__(self, "_strict", strict)

    def __call__(self, x):
        real = object.__getattribute__(self, "_real")
        if not isinstance(x, SymInt):
            return real(x)
        for member in real:
            if x == member.value:
                return member
        if object.__getattribute__(self, "_strict"):
            raise ValueError(f"<sym> is not a valid {real.__name__}")
        return real(0)

    def __getattr__(self, k):
        return getattr(object.__getattribute__(self, "_real"), k)

    def __iter__(self):
        return iter(object.__getattribute__(self, "_real"))


class FlagStub:
    """Stand-in for an IntFlag class applied to a symbolic value: `Flag(x) & Flag.member` is x & member.value."""

    def __init__(self, real):
        object.__setattr__(self, "_real", real)

    class _Val:
        def __init__(self, x):
            self.x = x

        def __and__(self, member):
            return self.x & int(member.value if hasattr(member, "value") else member)

        __rand__ = __and__

    def __call__(self, x):
        if isinstance(x, SymInt):
            return FlagStub._Val(x)
        return object.__getattribute__(self, "_real")(x)

    def __getattr__(self, k):
        return getattr(object.__getattribute__(self, "_real"), k)
